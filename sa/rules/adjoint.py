"""A — adjoint discipline of the hand-written backward passes (C04, C19); D1 — dispatch agreement of the gate loops (C03)."""
import ast
from ..callgraph import resolve_callee
from ..project import bind_call, AnalysisError

RULES = {
    'A1': 'A1: a backward pass walks the forward index space reversed (reversed(range(..)) / reversed(seq) / range(n-1,-1,-1) / '
          '[::-1]) over the same range expression as forward.',
    'A2': 'A2: where forward applies an operator `op` to the state, the adjoint sweep applies `op.T` to the conjugated state and '
          '`op.T.conj()` (= `op.conj().T`) to the cotangent, with the same qubit-index arguments; the two *_grad helpers agree '
          'role by role; the Knill-Laflamme backward applies `op_i.T.conj()` over the reversed operator sequence.',
    'A3': 'A3: gradient slots that can be shared (same parameter id / same q0) are accumulated with += inside the sweep, never '
          'assigned.',
    'A4': 'A4: for every torch.autograd.Function of the package: the tuple returned by backward has one entry per forward input '
          '(variadic forward: the literal tail matches the number of trailing named inputs), and tensors passed to '
          'ctx.save_for_backward are consumed with an index / unpack arity inside the saved count.',
    'A5': 'A5: a backward that leaves torch (.numpy(), numpy calls) is decorated once_differentiable.',
    'D1': 'D1: Circuit.apply_state and _CircuitFunction.forward dispatch every canonical gate kind to the same primitive with '
          'the same argument roles (unitary -> apply_gate(state, array, index); control -> apply_control_n_gate(state, array, '
          'index[0], index[1]); measure/custom -> gate.forward(state)), iterate in storage order, and _CircuitFunction.backward '
          'calls the *_grad twin of the forward primitive of the same kind with the same index roles; shift_qubit_index_ and '
          'num_qubit have an arm for every kind in CANONICAL_GATE_KIND.',
}

STATE = 'numqi.sim.state.'


def op_form(e, opname=None):
    """Classify an operator expression: ('id'|'T'|'H'|'conj', base_text) ; H = conjugate transpose."""
    t = False
    c = False
    cur = e
    while True:
        if isinstance(cur, ast.Attribute) and cur.attr == 'T':
            t = not t
            cur = cur.value
        elif isinstance(cur, ast.Call) and isinstance(cur.func, ast.Attribute) and cur.func.attr in ('conj', 'conjugate') and not cur.args:
            c = not c
            cur = cur.func.value
        elif isinstance(cur, ast.Attribute) and cur.attr == 'mT':
            t = not t
            cur = cur.value
        else:
            break
    form = {(False, False): 'id', (True, False): 'T', (True, True): 'H', (False, True): 'conj'}[(t, c)]
    return form, ast.unparse(cur)


def autograd_functions(proj):
    out = []
    for q, ci in sorted(proj.classes.items()):
        for b in ci.bases:
            if b.kind == 'external' and b.qual.endswith('autograd.Function'):
                out.append(ci)
    return out


def a4_a5(proj, rep, only=None):
    rep.rule('A4', RULES['A4'])
    rep.rule('A5', RULES['A5'])
    n = 0
    for ci in autograd_functions(proj):
        if only is not None and ci.qual not in only:
            continue
        m = ci.module
        rep.touch(m)
        fw, bw = ci.methods.get('forward'), ci.methods.get('backward')
        if fw is None or bw is None:
            rep.undecided('A4', ci.qual, 'forward/backward not both defined', m, ci.node, text=ci.qual)
            continue
        n += 1
        named = fw.params[1:]            # drop ctx
        variadic = fw.vararg is not None
        # number of trailing inputs peeled off *args by negative indexing: args[-1], args[-2], args[:-k]
        trailing = 0
        if variadic:
            for s in ast.walk(fw.node):
                if isinstance(s, ast.Subscript) and isinstance(s.value, ast.Name) and s.value.id == fw.vararg:
                    sl = s.slice
                    if isinstance(sl, ast.UnaryOp) and isinstance(sl.op, ast.USub) and isinstance(sl.operand, ast.Constant):
                        trailing = max(trailing, sl.operand.value)
        rets = [r for r in ast.walk(bw.node) if isinstance(r, ast.Return) and r.value is not None]
        for r in rets:
            v = r.value
            if isinstance(v, ast.Name):
                # ret = tuple(...) + (a, None)
                asg = [s for s in ast.walk(bw.node) if isinstance(s, ast.Assign) and isinstance(s.targets[0], ast.Name) and s.targets[0].id == v.id]
                if len(asg) == 1:
                    v = asg[0].value
            if isinstance(v, ast.Tuple) and not variadic:
                if len(v.elts) == len(named):
                    rep.ok('A4', ci.qual, f'backward returns {len(v.elts)} gradients for forward inputs {named}', m, r)
                else:
                    rep.violation('A4', ci.qual, f'backward returns {len(v.elts)} values but forward takes {len(named)} inputs {named}: '
                                  f'torch raises at backward time', m, r)
            elif variadic and isinstance(v, ast.BinOp) and isinstance(v.op, ast.Add) and isinstance(v.right, ast.Tuple):
                tail = v.right.elts
                if len(tail) == trailing:
                    rep.ok('A4', ci.qual, f'variadic forward peels {trailing} trailing inputs; backward appends a literal tail of {len(tail)}', m, r)
                else:
                    rep.violation('A4', ci.qual, f'variadic forward peels {trailing} trailing inputs off *{fw.vararg} but backward appends '
                                  f'{len(tail)} trailing gradients', m, r)
            else:
                rep.undecided('A4', ci.qual, f'backward return `{ast.unparse(r.value)[:60]}` not a literal tuple', m, r)
        # save_for_backward vs saved_tensors
        saved = None
        for s in ast.walk(fw.node):
            if isinstance(s, ast.Call) and isinstance(s.func, ast.Attribute) and s.func.attr == 'save_for_backward':
                if not any(isinstance(a, ast.Starred) for a in s.args):
                    saved = len(s.args)
        if saved is not None:
            for s in ast.walk(bw.node):
                if isinstance(s, ast.Subscript) and isinstance(s.value, ast.Attribute) and s.value.attr == 'saved_tensors' \
                        and isinstance(s.slice, ast.Constant) and isinstance(s.slice.value, int):
                    if 0 <= s.slice.value < saved:
                        rep.ok('A4', ci.qual, f'saved_tensors[{s.slice.value}] of {saved} saved', m, s)
                    else:
                        rep.violation('A4', ci.qual, f'saved_tensors[{s.slice.value}] but forward saves {saved} tensor(s)', m, s)
                if isinstance(s, ast.Assign) and isinstance(s.value, ast.Attribute) and s.value.attr == 'saved_tensors' \
                        and isinstance(s.targets[0], ast.Tuple):
                    k = len(s.targets[0].elts)
                    if k == saved:
                        rep.ok('A4', ci.qual, f'unpacks {k} saved tensors', m, s)
                    else:
                        rep.violation('A4', ci.qual, f'unpacks {k} values from saved_tensors but forward saves {saved}', m, s)
        # A5
        leaves = False
        for s in ast.walk(bw.node):
            if isinstance(s, ast.Call):
                if isinstance(s.func, ast.Attribute) and s.func.attr == 'numpy':
                    leaves = True
                r = resolve_callee(proj, m, s)
                if r.kind == 'external' and r.qual.startswith('numpy.'):
                    leaves = True
        if leaves:
            if any('once_differentiable' in d for d in bw.decorators):
                rep.ok('A5', ci.qual, 'backward leaves torch and is once_differentiable', m, bw.node, text=f'{ci.qual}.backward once_differentiable')
            else:
                rep.violation('A5', ci.qual, 'backward computes with numpy but is not marked once_differentiable: double backward would '
                              'silently return wrong (constant) second derivatives', m, bw.node, text=f'{ci.qual}.backward once_differentiable')
    rep.count('A4.autograd_functions', n)
    return n


def _call_to(proj, m, node, qual):
    out = []
    for c in ast.walk(node):
        if isinstance(c, ast.Call):
            r = resolve_callee(proj, m, c)
            if r.kind == 'func' and r.qual == qual:
                out.append(c)
    return out


def a2_grad_helpers(proj, rep):
    """apply_gate_grad / apply_control_n_gate_grad: conj state <- op.T ; cotangent <- op.T.conj(); same index args."""
    rep.rule('A2', RULES['A2'])
    n = 0
    roles = {}
    for gname, fwd in (('apply_gate_grad', 'apply_gate'), ('apply_control_n_gate_grad', 'apply_control_n_gate')):
        g = proj.func(STATE + gname)
        f = proj.func(STATE + fwd)
        m = g.module
        rep.touch(m)
        idx_params = f.params[2:]          # (index) or (ind_control_set, ind_target)
        calls = _call_to(proj, m, g.node, STATE + fwd)
        seen = {}
        for c in calls:
            st = c
            while st is not None and not isinstance(st, ast.Assign):
                st = getattr(st, '_parent', None)
            if st is None or not isinstance(st.targets[0], ast.Name):
                continue
            b = bind_call(c, f)
            state = b.args.get(f.params[0])
            opx = b.args.get(f.params[1])
            if not isinstance(state, ast.Name) or opx is None:
                continue
            if st.targets[0].id != state.id:
                continue
            form, base = op_form(opx)
            idx_ok = all(isinstance(b.args.get(p), ast.Name) and b.args[p].id == p for p in idx_params)
            seen[state.id] = (form, base, idx_ok, c)
        want = {g.params[0]: 'T', g.params[1]: 'H'}       # (q0_conj, q0_grad)
        for pname, wform in want.items():
            n += 1
            construct = f'{g.qual}[{pname}]'
            if pname not in seen:
                rep.violation('A2', construct, f'`{pname}` is not propagated back through {fwd}', m, g.node, text=f'{gname} {pname}')
                continue
            form, base, idx_ok, c = seen[pname]
            if base != g.params[2]:
                rep.undecided('A2', construct, f'operator expression `{base}` is not the parameter `{g.params[2]}`', m, c)
            elif form != wform:
                rep.violation('A2', construct, f'{pname} is propagated with op form `{form}` (`{ast.unparse(c.args[1]) if len(c.args) > 1 else "?"}`), '
                              f'the adjoint rule needs `{ "op.T" if wform == "T" else "op.T.conj()" }`', m, c)
            elif not idx_ok:
                rep.violation('A2', construct, f'{pname} is propagated on different qubit indices than the forward gate: `{ast.unparse(c)}`', m, c)
            else:
                rep.ok('A2', construct, f'{fwd}({pname}, op{"" if form == "id" else "." + ("T" if form == "T" else "T.conj()")}, <same indices>)', m, c)
        roles[gname] = {k: v[0] for k, v in seen.items()}
    return n


def a_kl(proj, rep):
    """Knill-Laflamme custom Function: forward twins, reversed adjoint sweep, += accumulation."""
    for k in ('A1', 'A2', 'A3'):
        rep.rule(k, RULES[k])
    cq = 'numqi.qec._internal._KnillLaflammeInnerProductTorchOp'
    ci = proj.cls(cq)
    m = ci.module
    rep.touch(m)
    fw, bw = ci.methods['forward'], ci.methods['backward']
    n = 0
    # forward twin: numpy arm of knill_laflamme_inner_product
    host = proj.func('numqi.qec._internal.knill_laflamme_inner_product')
    loops_f = [x for x in ast.walk(fw.node) if isinstance(x, ast.For) and isinstance(x.iter, ast.Name)]
    loops_h = [x for x in ast.walk(host.node) if isinstance(x, ast.For) and isinstance(x.iter, ast.Name)]
    outer_f = [x for x in loops_f if any(isinstance(y, ast.For) and y is not x for y in ast.walk(x))]
    outer_h = [x for x in loops_h if any(isinstance(y, ast.For) and y is not x for y in ast.walk(x))]
    n += 1
    if len(outer_f) == 1 and len(outer_h) == 1:
        if alpha_dump(outer_f[0]) == alpha_dump(outer_h[0]):
            rep.ok('A2', cq, 'torch forward loop is alpha-equivalent to the NumPy arm of knill_laflamme_inner_product', m, outer_f[0], text='KL forward twins')
        else:
            rep.violation('A2', cq, 'torch forward loop and the NumPy arm of knill_laflamme_inner_product differ (the two backends compute '
                          'different inner products): ' + first_diff(outer_f[0], outer_h[0]), m, outer_f[0], text='KL forward twins')
    else:
        rep.undecided('A2', cq, 'forward loops not in the recognised nested form', m, fw.node, text='KL forward twins')
    # backward: calls to apply_gate
    calls = _call_to(proj, m, bw.node, STATE + 'apply_gate')
    fcalls = _call_to(proj, m, fw.node, STATE + 'apply_gate')
    if len(fcalls) != 1 or len(calls) != 2:
        rep.undecided('A2', cq, f'expected 1 forward and 2 backward apply_gate sweeps, found {len(fcalls)} and {len(calls)}', m, bw.node, text='KL sweeps')
        return n
    fidx = ast.dump(fcalls[0].args[2]) if len(fcalls[0].args) > 2 else None
    forms = []
    for c in calls:
        lp = c
        while lp is not None and not isinstance(lp, ast.For):
            lp = getattr(lp, '_parent', None)
        rev = loop_reversed(lp) if lp is not None else None
        form, base = op_form(c.args[1]) if len(c.args) > 1 else (None, None)
        same_idx = len(c.args) > 2 and ast.dump(c.args[2]) == fidx
        forms.append((form, rev, same_idx, c, lp))
    # exactly one plain forward replay (id, not reversed) and one adjoint sweep (H, reversed)
    n += 2
    plain = [x for x in forms if x[0] == 'id']
    adj = [x for x in forms if x[0] != 'id']
    if len(plain) == 1 and plain[0][1] is False and plain[0][2]:
        rep.ok('A2', cq, 'first term replays the forward sequence', m, plain[0][3])
    elif len(plain) == 1:
        rep.violation('A2', cq, f'the forward-replay sweep is {"reversed" if plain[0][1] else "on different indices"}', m, plain[0][3])
    else:
        rep.undecided('A2', cq, 'no plain forward replay found', m, bw.node, text='KL replay')
    if len(adj) == 1:
        form, rev, same_idx, c, lp = adj[0]
        if form != 'H':
            rep.violation('A2', cq, f'adjoint sweep applies op form `{form}` (`{ast.unparse(c.args[1])}`), needs op_i.T.conj()', m, c)
        elif rev is not True:
            rep.violation('A1', cq, f'adjoint sweep iterates `{ast.unparse(lp.iter)}` in forward order: (O1 O2..)^dagger = ..O2^dagger O1^dagger needs '
                          f'the reversed sequence (wrong for errors of weight >= 2 on overlapping or ordered supports)', m, lp, text='KL adjoint order')
        elif not same_idx:
            rep.violation('A2', cq, 'adjoint sweep uses different qubit indices than forward', m, c)
        else:
            rep.ok('A2', cq, 'adjoint sweep: op_i.T.conj() over the reversed sequence on the forward indices', m, c)
    else:
        rep.violation('A2', cq, 'no adjoint (conjugate-transposed) sweep in backward', m, bw.node, text='KL adjoint')
    # A3 accumulation
    tgt = None
    for s in ast.walk(bw.node):
        if isinstance(s, ast.Return) and isinstance(s.value, ast.Tuple) and isinstance(s.value.elts[0], ast.Name):
            tgt = s.value.elts[0].id
    acc_names = {tgt}
    for s in ast.walk(bw.node):
        if isinstance(s, ast.Assign) and isinstance(s.targets[0], ast.Name) and s.targets[0].id == tgt and isinstance(s.value, ast.Call):
            for a in s.value.args:
                if isinstance(a, ast.Name):
                    acc_names.add(a.id)
    nacc = 0
    for s in ast.walk(bw.node):
        inloop = False
        p = getattr(s, '_parent', None)
        while p is not None:
            if isinstance(p, ast.For):
                inloop = True
            p = getattr(p, '_parent', None)
        if not inloop:
            continue
        if isinstance(s, ast.AugAssign) and isinstance(s.target, ast.Name) and s.target.id in acc_names:
            nacc += 1
            n += 1
            if isinstance(s.op, ast.Add):
                rep.ok('A3', cq, f'`{ast.unparse(s)[:60]}` accumulates', m, s)
            else:
                rep.violation('A3', cq, f'gradient slot updated with {type(s.op).__name__}', m, s)
        if isinstance(s, ast.Assign) and isinstance(s.targets[0], ast.Name) and s.targets[0].id in acc_names:
            n += 1
            rep.violation('A3', cq, f'`{ast.unparse(s)[:60]}` overwrites the accumulated gradient inside the sweep: only the last error term '
                          f'contributes', m, s)
    if nacc < 2:
        rep.violation('A3', cq, f'only {nacc} accumulation(s) into the returned gradient inside the error loop (two terms expected: '
                      f'd/dq0 and d/dq0*)', m, bw.node, text='KL accumulate count')
    return n


def loop_reversed(lp):
    it = lp.iter
    if isinstance(it, ast.Call) and isinstance(it.func, ast.Name) and it.func.id == 'reversed':
        return True
    if isinstance(it, ast.Subscript) and isinstance(it.slice, ast.Slice) and isinstance(it.slice.step, ast.UnaryOp) \
            and isinstance(it.slice.step.op, ast.USub):
        return True
    if isinstance(it, ast.Call) and isinstance(it.func, ast.Name) and it.func.id == 'range' and len(it.args) == 3 \
            and isinstance(it.args[2], ast.UnaryOp):
        return True
    if isinstance(it, (ast.Name, ast.Subscript, ast.Attribute)) or (isinstance(it, ast.Call) and isinstance(it.func, ast.Name) and it.func.id in ('range', 'enumerate')):
        return False
    return None


def alpha_dump(node):
    """ast.dump with local names renamed in order of first occurrence."""
    names = {}

    class R(ast.NodeTransformer):
        def visit_Name(self, n):
            if n.id not in names:
                names[n.id] = f'v{len(names)}'
            return ast.copy_location(ast.Name(id=names[n.id], ctx=n.ctx), n)
    import copy
    t = R().visit(copy.deepcopy(node))
    return ast.dump(t)


def first_diff(a, b):
    la = ast.unparse(a).splitlines()
    lb = ast.unparse(b).splitlines()
    for x, y in zip(la, lb):
        if x.strip() != y.strip():
            return f'`{x.strip()}` vs `{y.strip()}`'
    return 'different length'


# ------------------------------------------------------------------------------------------------ D1
def _kind_arms(fn_node, var_is_attr=True):
    """Map literal kind -> list of statements, from `if <x>=='kind': ... elif ...` chains in a function."""
    arms = {}

    def visit_if(node):
        t = node.test
        if isinstance(t, ast.Compare) and len(t.ops) == 1 and isinstance(t.ops[0], ast.Eq) and isinstance(t.comparators[0], ast.Constant) \
                and isinstance(t.comparators[0].value, str):
            lhs = ast.unparse(t.left)
            if lhs.endswith('kind'):
                arms.setdefault(t.comparators[0].value, []).append(node.body)
        for o in node.orelse:
            if isinstance(o, ast.If):
                visit_if(o)
    for n in ast.walk(fn_node):
        if isinstance(n, ast.If):
            p = getattr(n, '_parent', None)
            if isinstance(p, ast.If) and n in p.orelse:
                continue
            visit_if(n)
    return arms


def _primitive_call(proj, m, body):
    """(callee qual | '.forward', [arg texts]) of the state-updating call in an arm."""
    for st in body:
        for c in ast.walk(st):
            if isinstance(c, ast.Call):
                r = resolve_callee(proj, m, c)
                if r.kind == 'func' and r.qual.startswith(STATE):
                    return r.qual, [ast.unparse(a) for a in c.args], [(k.arg, ast.unparse(k.value)) for k in c.keywords], c
                if isinstance(c.func, ast.Attribute) and c.func.attr in ('forward', 'grad_backward'):
                    return '.' + c.func.attr, [ast.unparse(a) for a in c.args], [], c
    return None


def canonical_kinds(proj):
    cm = proj.mod('numqi.sim.circuit')
    bd = cm.bindings.get('CANONICAL_GATE_KIND')
    if bd and bd[0] == 'assign' and isinstance(bd[1], ast.Set):
        return {e.value for e in bd[1].elts if isinstance(e, ast.Constant)}
    raise AnalysisError('numqi.sim.circuit.CANONICAL_GATE_KIND is no longer a literal set')


def d1(proj, rep):
    rep.rule('D1', RULES['D1'])
    rep.rule('A1', RULES['A1'])
    rep.rule('A3', RULES['A3'])
    cm = proj.mod('numqi.sim.circuit')
    tm = proj.mod('numqi.sim._torch_utils')
    rep.touch(cm)
    rep.touch(tm)
    n = 0
    canon = None
    bd = cm.bindings.get('CANONICAL_GATE_KIND')
    if bd and bd[0] == 'assign' and isinstance(bd[1], ast.Set):
        canon = {e.value for e in bd[1].elts if isinstance(e, ast.Constant)}
    if not canon:
        raise AnalysisError('numqi.sim.circuit.CANONICAL_GATE_KIND is no longer a literal set')
    apply_state = proj.func('numqi.sim.circuit.Circuit.apply_state')
    fwd = proj.func('numqi.sim._torch_utils._CircuitFunction.forward')
    bwd = proj.func('numqi.sim._torch_utils._CircuitFunction.backward')
    arms_a = _kind_arms(apply_state.node)
    arms_f = _kind_arms(fwd.node)
    arms_b = _kind_arms(bwd.node)
    expect = {'unitary': (STATE + 'apply_gate', ['S', 'A', 'I']),
              'control': (STATE + 'apply_control_n_gate', ['S', 'A', 'I[0]', 'I[1]'])}

    def roles(args, state_names, array_names, index_names):
        out = []
        for a in args:
            if a in state_names:
                out.append('S')
            elif a in array_names:
                out.append('A')
            elif a in index_names:
                out.append('I')
            elif any(a == f'{i}[0]' for i in index_names):
                out.append('I[0]')
            elif any(a == f'{i}[1]' for i in index_names):
                out.append('I[1]')
            else:
                out.append('?' + a)
        return out
    for kind in sorted(canon | {'custom'}):
        for label, arms, m, fq in (('Circuit.apply_state', arms_a, cm, apply_state.qual), ('_CircuitFunction.forward', arms_f, tm, fwd.qual)):
            n += 1
            construct = f'{fq}[{kind}]'
            if kind not in arms:
                rep.violation('D1', construct, f'no arm for gate kind {kind!r}: a recorded {kind} gate falls into the assert-False branch', m,
                              (apply_state if m is cm else fwd).node, text=f'{label} arm {kind}')
                continue
            pc = _primitive_call(proj, m, arms[kind][0])
            if pc is None:
                rep.undecided('D1', construct, 'no state-updating call in the arm', m, arms[kind][0][0])
                continue
            q, args, kws, c = pc
            if kind in expect:
                eq, er = expect[kind]
                rr = roles(args, {'q0'}, {'gate.array', 'array'}, {'index'})
                if q != eq:
                    rep.violation('D1', construct, f'{kind} gates are dispatched to {q}, expected {eq}', m, c)
                elif rr != er:
                    rep.violation('D1', construct, f'argument roles {rr} ({", ".join(args)}), expected {er}: '
                                  f'{"control and target swapped" if sorted(rr) == sorted(er) else "wrong operand"}', m, c)
                else:
                    rep.ok('D1', construct, f'{q.rsplit(".", 1)[1]}({", ".join(args)})', m, c)
            else:
                if q == '.forward' and args == ['q0']:
                    rep.ok('D1', construct, 'gate.forward(q0)', m, c)
                else:
                    rep.violation('D1', construct, f'{kind} gates are dispatched to `{ast.unparse(c)}`, expected gate.forward(q0)', m, c)
    # storage order in both forward loops
    for fq, fn, m in ((apply_state.qual, apply_state.node, cm), (fwd.qual, fwd.node, tm)):
        loops = [x for x in ast.walk(fn) if isinstance(x, ast.For) and any(isinstance(y, ast.If) for y in x.body)]
        n += 1
        if len(loops) == 1:
            r = loop_reversed(loops[0])
            if r is False:
                rep.ok('D1', fq, f'gates applied in storage order `{ast.unparse(loops[0].iter)}`', m, loops[0], text=f'{fq} order')
            elif r is True:
                rep.violation('D1', fq, f'gate loop iterates `{ast.unparse(loops[0].iter)}`: gates are applied in reverse storage order', m, loops[0], text=f'{fq} order')
            else:
                rep.undecided('D1', fq, 'loop order idiom unknown', m, loops[0], text=f'{fq} order')
        else:
            rep.undecided('D1', fq, f'{len(loops)} dispatch loops found', m, fn, text=f'{fq} order')
    # backward: reversed same range, grad twins
    loops = [x for x in ast.walk(bwd.node) if isinstance(x, ast.For) and any(isinstance(y, ast.If) for y in ast.walk(x))]
    floops = [x for x in ast.walk(fwd.node) if isinstance(x, ast.For) and any(isinstance(y, ast.If) for y in x.body)]
    n += 1
    if len(loops) == 1 and len(floops) == 1:
        r = loop_reversed(loops[0])
        inner = loops[0].iter.args[0] if isinstance(loops[0].iter, ast.Call) and loops[0].iter.args else None
        if r is True and inner is not None and ast.dump(inner) == ast.dump(floops[0].iter):
            rep.ok('A1', bwd.qual, f'reverse sweep over `{ast.unparse(floops[0].iter)}`', tm, loops[0], text='circuit backward order')
        elif r is False:
            rep.violation('A1', bwd.qual, f'backward sweeps `{ast.unparse(loops[0].iter)}` in forward order: gates are un-applied in the wrong '
                          f'order (wrong gradient for any two non-commuting gates)', tm, loops[0], text='circuit backward order')
        elif r is True:
            rep.violation('A1', bwd.qual, f'backward sweeps `{ast.unparse(loops[0].iter)}` but forward ran over `{ast.unparse(floops[0].iter)}`', tm,
                          loops[0], text='circuit backward order')
        else:
            rep.undecided('A1', bwd.qual, 'reverse-loop idiom unknown', tm, loops[0], text='circuit backward order')
    else:
        rep.undecided('A1', bwd.qual, 'backward loop not found', tm, bwd.node, text='circuit backward order')
    bexpect = {'unitary': (STATE + 'apply_gate_grad', ['C', 'G', 'A', 'I']),
               'control': (STATE + 'apply_control_n_gate_grad', ['C', 'G', 'A', 'I[0]', 'I[1]'])}
    for kind, (eq, er) in sorted(bexpect.items()):
        n += 1
        construct = f'{bwd.qual}[{kind}]'
        if kind not in arms_b:
            rep.violation('D1', construct, f'backward has no arm for kind {kind!r}', tm, bwd.node, text=f'backward arm {kind}')
            continue
        pc = _primitive_call(proj, tm, arms_b[kind][0])
        if pc is None:
            rep.undecided('D1', construct, 'no call in arm', tm, arms_b[kind][0][0])
            continue
        q, args, kws, c = pc
        rr = []
        for a in args:
            rr.append({'q0_conj': 'C', 'q0_grad': 'G', 'array': 'A', 'index': 'I', 'index[0]': 'I[0]', 'index[1]': 'I[1]'}.get(a, '?' + a))
        if q != eq:
            rep.violation('D1', construct, f'backward of {kind} gates calls {q}, expected the twin {eq} of the forward primitive', tm, c)
        elif rr != er:
            rep.violation('D1', construct, f'argument roles {rr} ({", ".join(args)}), expected {er}', tm, c)
        else:
            rep.ok('D1', construct, f'{q.rsplit(".", 1)[1]}({", ".join(args)})', tm, c)
    # A3: shared-parameter accumulation
    n += 1
    acc = [s for s in ast.walk(bwd.node) if isinstance(s, (ast.AugAssign, ast.Assign))
           and 'op_grad' in ast.unparse(s.value) and isinstance(s.targets[0] if isinstance(s, ast.Assign) else s.target, ast.Subscript)]
    if len(acc) == 1 and isinstance(acc[0], ast.AugAssign) and isinstance(acc[0].op, ast.Add):
        rep.ok('A3', bwd.qual, f'`{ast.unparse(acc[0])}` accumulates gradients of gates that share a parameter', tm, acc[0])
    elif len(acc) == 1:
        rep.violation('A3', bwd.qual, f'`{ast.unparse(acc[0])}` overwrites: when one parameter drives several gates only the first gate in '
                      f'circuit order contributes', tm, acc[0])
    else:
        rep.undecided('A3', bwd.qual, 'operator-gradient store not found', tm, bwd.node, text='op_grad store')
    # shift_qubit_index_ coverage: every canonical kind is handled by an explicit arm or by the final else
    n += shift_arms(proj, rep, canon)
    rep.count('D1.obligations', n)
    return n


RULES['D3'] = ('D3: Circuit.shift_qubit_index_ handles every kind in CANONICAL_GATE_KIND (explicit arm or the final else of the '
               'kind chain) by rewriting the list entry with every qubit index shifted; the arm that handles measure gates also '
               'updates the gate object\'s own `index` attribute, because MeasureGate.forward measures self.index, not the '
               'list entry.')


def shift_arms(proj, rep, canon):
    rep.rule('D3', RULES['D3'])
    fq = 'numqi.sim.circuit.Circuit.shift_qubit_index_'
    f = proj.func(fq)
    cm = f.module
    # innermost kind chain
    chain = None
    for node in ast.walk(f.node):
        if isinstance(node, ast.If):
            t = node.test
            if isinstance(t, ast.Compare) and isinstance(t.ops[0], ast.Eq) and ast.unparse(t.left).endswith('.kind') \
                    and isinstance(t.comparators[0], ast.Constant):
                par = getattr(node, '_parent', None)
                if not (isinstance(par, ast.If) and node in par.orelse):
                    chain = node
                    break
    n = 0
    # the shift is applied for EVERY non-zero delta (negative shifts move a circuit down)
    guard = next((x for x in f.node.body if isinstance(x, ast.If) and 'delta' in ast.unparse(x.test)), None)
    if guard is not None:
        t = ast.unparse(guard.test).replace(' ', '')
        n += 1
        if t in ('delta!=0', '0!=delta', 'delta'):
            rep.ok('D3', fq, 'index shift applied for every non-zero delta', cm, guard, text='shift guard')
        elif t in ('delta>0', '0<delta', 'delta>=1'):
            rep.violation('D3', fq, f'`if {ast.unparse(guard.test)}:` ignores negative shifts: the circuit keeps acting on the old qubits after shift_qubit_index_(-k)', cm, guard,
                          text='shift guard')
        else:
            rep.undecided('D3', fq, f'guard `{t}` not recognised', cm, guard, text='shift guard')
            n -= 1
    if chain is None:
        rep.undecided('D3', fq, 'kind dispatch chain not found', cm, f.node, text='shift chain')
        return 1
    arms = {}
    node = chain
    else_body = None
    while True:
        arms[node.test.comparators[0].value] = node.body
        if len(node.orelse) == 1 and isinstance(node.orelse[0], ast.If) and isinstance(node.orelse[0].test, ast.Compare) \
                and ast.unparse(node.orelse[0].test.left).endswith('.kind'):
            node = node.orelse[0]
        else:
            else_body = node.orelse
            break
    # does MeasureGate.forward read self.index ?
    mg = proj.classes.get('numqi.sim.circuit.MeasureGate')
    reads_own_index = False
    if mg is not None and 'forward' in mg.methods:
        reads_own_index = any(isinstance(x, ast.Attribute) and x.attr == 'index' and isinstance(x.value, ast.Name) and x.value.id == 'self'
                              for x in ast.walk(mg.methods['forward'].node))
    for kind in sorted(canon):
        n += 1
        body = arms.get(kind)
        how = 'explicit arm'
        if body is None and else_body:
            body, how = else_body, 'else arm'
        construct = f'{fq}[{kind}]'
        if not body:
            rep.violation('D3', construct, f'no arm handles canonical kind {kind!r}: its qubit indices are not shifted', cm, chain, text=f'shift arm {kind}')
            continue
        stores = [s for st in body for s in ast.walk(st) if isinstance(s, ast.Assign) and isinstance(s.targets[0], ast.Subscript)
                  and 'gate_index_list' in ast.unparse(s.targets[0])]
        if not stores:
            rep.violation('D3', construct, f'{how} for {kind!r} does not rewrite the gate_index_list entry', cm, body[0], text=f'shift arm {kind}')
            continue
        if kind == 'measure' and reads_own_index:
            upd = [s for st in body for s in ast.walk(st) if isinstance(s, ast.Assign) and isinstance(s.targets[0], ast.Attribute)
                   and s.targets[0].attr == 'index']
            if not upd:
                rep.violation('D3', construct, f'{how} shifts the list entry of a measure gate but not the gate object\'s own `index`, which '
                              f'MeasureGate.forward uses: after shifting, the circuit measures the old qubits', cm, stores[0], text='shift measure gate.index')
                continue
        rep.ok('D3', construct, f'{how} rewrites the entry' + (' and gate.index' if kind == 'measure' and reads_own_index else ''), cm, stores[0],
               text=f'shift arm {kind}')
    return n


# ------------------------------------------------------------------------------------------------ A6
RULES['A6'] = ('A6: an index table T = nonzero(mask) / argwhere(mask) lists one row per selected entry, one column per axis of the mask. Where '
               'it indexes an array, column 0 goes on axis 0 and the columns are used from 0 upwards: `X[T[:,0], T[:,1], ...]`. Using a later '
               'column while axis 0 is `:` applies the selection of one batch element to the whole batch (the 0/0 mask of the sqrtm backward '
               'would zero gradient entries of full-rank neighbours).')


def a6(proj, rep, modules):
    rep.rule('A6', RULES['A6'])
    n = 0
    for mq in modules:
        m = proj.mod(mq)
        rep.touch(m)
        for fi in [f for f in proj.funcs.values() if f.module is m]:
            tables = set()
            for st in ast.walk(fi.node):
                if isinstance(st, ast.Assign) and isinstance(st.targets[0], ast.Name) and isinstance(st.value, ast.Call):
                    f = st.value.func
                    nm = f.attr if isinstance(f, ast.Attribute) else getattr(f, 'id', '')
                    if nm in ('nonzero', 'argwhere') and isinstance(f, ast.Attribute) and isinstance(f.value, ast.Name) and f.value.id == 'torch' \
                            or nm == 'argwhere':
                        tables.add(st.targets[0].id)
            if not tables:
                continue
            for sub in ast.walk(fi.node):
                if not (isinstance(sub, ast.Subscript) and isinstance(sub.slice, ast.Tuple)):
                    continue
                cols = []
                for pos, e in enumerate(sub.slice.elts):
                    if isinstance(e, ast.Subscript) and isinstance(e.value, ast.Name) and e.value.id in tables and isinstance(e.slice, ast.Tuple) \
                            and len(e.slice.elts) == 2 and isinstance(e.slice.elts[1], ast.Constant):
                        cols.append((pos, e.slice.elts[1].value, e.value.id))
                if not cols:
                    continue
                n += 1
                st = sub
                while not isinstance(st, ast.stmt):
                    st = getattr(st, '_parent')
                used = [c for _, c, _ in cols]
                first_pos, first_col, t = cols[0]
                if 0 not in used or first_pos != 0 or first_col != 0:
                    rep.violation('A6', fi.qual, f'`{ast.unparse(sub)}`: the index table {t} is used with column(s) {sorted(set(used))} but its column 0 '
                                  f'(the batch index) is not on axis 0: the selection is applied to every batch element', m, st)
                elif sorted(set(used)) != list(range(max(used) + 1)):
                    rep.violation('A6', fi.qual, f'`{ast.unparse(sub)}`: columns {sorted(set(used))} of {t} are used, a lower column is skipped', m, st)
                else:
                    rep.ok('A6', fi.qual, f'`{ast.unparse(sub)}`: columns {sorted(set(used))} of {t}, column 0 on axis 0', m, st)
    rep.count('A6.sites', n)
    return n


# ------------------------------------------------------------------------------------------------ IP1
RULES['IP1'] = ('IP1: inner_product_psi0_O_psi1 evaluates <psi0| A B C |psi1> for a term [A, B, C] (documented as the left-to-right matrix product): the factors are '
                'applied to the ket from the RIGHT end, i.e. the loop / reduction over a term iterates `reversed(term)`. Forward iteration computes '
                '<psi0| C B A |psi1>, which differs as soon as two factors on a common qubit do not commute.')


def ip1(proj, rep):
    rep.rule('IP1', RULES['IP1'])
    f = proj.func('numqi.sim.state.inner_product_psi0_O_psi1')
    m = f.module
    rep.touch(m)
    # the iteration that applies gates: a For whose body calls apply_gate, or a functools.reduce whose function calls apply_gate
    site = None
    for x in ast.walk(f.node):
        if isinstance(x, ast.For) and any(isinstance(c, ast.Call) and ast.unparse(c.func).endswith('apply_gate') for c in ast.walk(x)) \
                and not any(isinstance(y, ast.For) and y is not x and any(isinstance(c, ast.Call) and ast.unparse(c.func).endswith('apply_gate') for c in ast.walk(y))
                            for y in ast.walk(x)):
            site = ('for', x, x.iter)
        if isinstance(x, ast.Call) and ast.unparse(x.func).endswith('reduce') and len(x.args) >= 2:
            site = ('reduce', x, x.args[1])
    if site is None:
        rep.undecided('IP1', f.qual, 'iteration over the factors of a term not found', m, f.node, text='factor order')
        return 0
    kind, node, it = site
    t = ast.unparse(it).replace(' ', '')
    if t.startswith('reversed(') or t.endswith('[::-1]'):
        rep.ok('IP1', f.qual, f'factors applied to the ket in reversed order (`{t}`)', m, node)
    else:
        rep.violation('IP1', f.qual, f'the factors of a term are applied to the ket in list order (`{t}`): a term [A, B] evaluates <psi0|B A|psi1> instead of the '
                      f'documented <psi0|A B|psi1>', m, node)
    return 1


# ------------------------------------------------------------------------------------------------ A7 / A8
RULES['A7'] = ('A7: in the flat-parameter bridge hf_model_wrapper the .grad buffers are cleared BEFORE the backward pass of the same evaluation (torch accumulates '
               'into .grad): clearing them afterwards returns new + stale gradient on the first call after any earlier backward on the model.')
RULES['A8'] = ('A8: the hand-written matrix-logarithm backward (PSDMatrixLogm) is selected whenever the tensor whose logarithm is taken can receive a gradient: the '
               'dispatch condition in front of `logm(T)` mentions `T.requires_grad`. Otherwise autograd differentiates through eigh, whose backward divides by '
               'eigenvalue gaps (wrong / NaN at degenerate spectra).')


def a7(proj, rep):
    rep.rule('A7', RULES['A7'])
    f = proj.func('numqi.optimize._internal.hf_model_wrapper')
    m = f.module
    rep.touch(m)
    zero = [c for c in ast.walk(f.node) if isinstance(c, ast.Call) and isinstance(c.func, ast.Attribute) and c.func.attr == 'zero_']
    back = [c for c in ast.walk(f.node) if isinstance(c, ast.Call) and isinstance(c.func, ast.Attribute) and c.func.attr in ('backward', 'grad_backward')]
    if not zero or not back:
        rep.undecided('A7', f.qual, 'zero_() / backward() calls not found', m, f.node, text='zero before backward')
        return 0
    if min(c.lineno for c in zero) < min(c.lineno for c in back):
        rep.ok('A7', f.qual, '.grad buffers are cleared before the backward pass', m, zero[0])
    else:
        rep.violation('A7', f.qual, f'`.zero_()` (line {zero[0].lineno}) runs after the backward pass (line {min(c.lineno for c in back)}): gradients left on the model by an '
                      f'earlier backward (minimize_adam warm-up, a manual loss.backward()) are added to the first gradient returned', m, zero[0])
    return 1


def a8(proj, rep, modules):
    rep.rule('A8', RULES['A8'])
    n = 0
    for mq in modules:
        m = proj.mod(mq)
        rep.touch(m)
        for fi in [f for f in proj.funcs.values() if f.module is m]:
            for node in ast.walk(fi.node):
                if not isinstance(node, ast.If):
                    continue
                # body computes  X = <get_PSDMatrixLogm(...)>(T)  or  op = get_PSDMatrixLogm(..); X = op(T)
                src = ast.unparse(ast.Module(body=node.body, type_ignores=[]))
                if 'PSDMatrixLogm' not in src:
                    continue
                ops = {s.targets[0].id for s in node.body if isinstance(s, ast.Assign) and isinstance(s.targets[0], ast.Name) and 'PSDMatrixLogm' in ast.unparse(s.value)}
                arg = None
                for s in node.body:
                    for c in ast.walk(s):
                        if isinstance(c, ast.Call) and c.args and isinstance(c.args[0], ast.Name):
                            if (isinstance(c.func, ast.Name) and c.func.id in ops) or (isinstance(c.func, ast.Call) and 'PSDMatrixLogm' in ast.unparse(c.func)):
                                arg = c.args[0].id
                if arg is None:
                    continue
                n += 1
                test = ast.unparse(node.test).replace(' ', '')
                if f'{arg}.requires_grad' in test:
                    rep.ok('A8', fi.qual, f'logm({arg}) with the custom backward is selected when {arg}.requires_grad', m, node)
                elif 'requires_grad' in test:
                    rep.violation('A8', fi.qual, f'`if {ast.unparse(node.test)[:70]}` guards the custom-backward logm({arg}) but does not test `{arg}.requires_grad`: when only '
                                  f'{arg} carries a gradient, autograd goes through eigh (wrong or NaN gradient at degenerate spectra)', m, node)
                else:
                    rep.undecided('A8', fi.qual, f'dispatch condition `{test[:50]}` not recognised', m, node)
                    n -= 1
    rep.count('A8.logm_dispatch_sites', n)
    return n



# ------------------------------------------------------------------------------------------------ A9
RULES['A9'] = ('A9: `ctx.needs_input_grad[k]` is indexed with the position of the forward argument it is about: for forward(ctx, *args) with the documented layout '
               '(*gate tensors, q0, info) the state is args[-2]; testing slot -1 (the non-tensor info dict, never differentiable) makes the condition constant '
               'False, so the gradient w.r.t. the input state is silently dropped.')


def a9(proj, rep):
    rep.rule('A9', RULES['A9'])
    n = 0
    for ci in autograd_functions(proj):
        fwd, bwd = ci.methods.get('forward'), ci.methods.get('backward')
        if fwd is None or bwd is None:
            continue
        m = ci.module
        # positions of forward args that are unpacked from *args by literal negative index
        slot_of = {}
        for s in ast.walk(fwd.node):
            if isinstance(s, ast.Assign) and isinstance(s.targets[0], ast.Name) and isinstance(s.value, ast.Subscript) and isinstance(s.value.value, ast.Name) \
                    and s.value.value.id == 'args':
                try:
                    slot_of[ast.literal_eval(s.value.slice)] = s.targets[0].id
                except Exception:
                    pass
        for x in ast.walk(bwd.node):
            if isinstance(x, ast.Subscript) and ast.unparse(x.value) == 'ctx.needs_input_grad':
                n += 1
                rep.touch(m)
                try:
                    k = ast.literal_eval(x.slice)
                except Exception:
                    rep.undecided('A9', f'{ci.qual}.backward', f'`{ast.unparse(x)}`: non-literal slot', m, x)
                    n -= 1
                    continue
                name = slot_of.get(k)
                # which variable is the gradient being conditioned?
                st = x
                while not isinstance(st, ast.stmt):
                    st = st._parent
                txt = ast.unparse(st)
                if name is None:
                    rep.undecided('A9', f'{ci.qual}.backward', f'`{ast.unparse(x)}`: forward does not name args[{k}]', m, st)
                    n -= 1
                elif f'{name}_grad' in txt or name in txt:
                    rep.ok('A9', f'{ci.qual}.backward', f'needs_input_grad[{k}] guards the gradient of forward argument `{name}`', m, st)
                else:
                    other = [v for v in slot_of.values() if f'{v}_grad' in txt]
                    rep.violation('A9', f'{ci.qual}.backward', f'`{txt[:90]}` conditions the gradient of `{other[0] if other else "?"}` on needs_input_grad[{k}], which is the forward '
                                  f'argument `{name}` (args[{k}]): for a non-tensor argument this is always False, so that gradient is never returned', m, st)
    rep.count('A9.needs_input_grad_uses', n)
    return n
