"""R1 — typing of the computed einsum leg lists that route operator legs to the chosen qubits (C03 core mechanism).

The leg lists are built at run time, but from four idioms only; they are recognised symbolically:
    Q      = list(range(n))                         state legs  q_0 .. q_{n-1}
    F      = list/tuple(range(n, n+N))              fresh legs  f_0 .. f_{N-1}
    I      = index / tuple(index) / list(index)     chosen legs i_0 .. i_{N-1}  (a sub-sequence of Q)
    MAP    = {x: y for x, y in zip(I, F)}           i_k -> f_k
    OUT    = [(MAP[x] if x in MAP else x) for x in range(n)]     Q with every i_k replaced by f_k
Obligation for `contract(state, Q, op, OPLEGS, OUT)`: OPLEGS = F + I, i.e. the operator's ROW (output) legs are the fresh
ones and its COLUMN (input) legs are contracted with the state - that is (op (x) 1) |state>.  I + F applies op^T.
For the density-matrix routine the second contraction must use conj(op) on the column legs (U rho U^dagger).
"""
import ast
from ..dataflow import reaching_defs

RULE_R1 = ('R1: in state.apply_gate, dm.apply_gate (both sides), state.apply_gate_grad and dm.operator_expectation the computed leg '
           'lists follow the relabelling idiom with the operator legs ordered (fresh/output legs, chosen/input legs); the output '
           'list is the state legs with chosen -> fresh; the right application in dm.apply_gate uses the conjugated operator; the '
           'operator-gradient contraction returns legs (chosen, fresh) = d/d op[row, col]; the expectation contracts op[row=col-leg '
           'of rho, col=row-leg of rho] = Tr(rho O).')


def _def(fn, name, at):
    rd = [(v, st) for v, st, p in reaching_defs(fn, name, at) if v != 'param' and p is None]
    return rd[0] if len(rd) == 1 else (None, None)


def classify(fn, e, at, depth=0):
    """Symbolic class of a leg-list expression: ('Q',n) ('F',n,N) ('I',shift) ('OUT',) ('CAT',[parts]) or ('?', text)."""
    t = ast.unparse(e).replace(' ', '')
    if depth > 6:
        return ('?', t)
    if isinstance(e, ast.Name):
        if e.id in ('index', 'ind_target_new', 'index_plus1') or e.id.startswith('index'):
            v, st = _def(fn, e.id, at)
            if v is not None and isinstance(v, ast.ListComp) and ast.unparse(v.elt).replace(' ', '') in ('x+1',):
                return ('I', 1)
            return ('I', 0)
        v, st = _def(fn, e.id, at)
        if v is None:
            return ('?', t)
        return classify(fn, v, st, depth + 1)
    if isinstance(e, ast.Call) and isinstance(e.func, ast.Name) and e.func.id in ('list', 'tuple') and len(e.args) == 1:
        a = e.args[0]
        if isinstance(a, ast.Call) and isinstance(a.func, ast.Name) and a.func.id == 'range':
            args = [ast.unparse(x).replace(' ', '') for x in a.args]
            if len(args) == 1:
                return ('Q', args[0])
            if len(args) == 2:
                return ('F', args[0], args[1])
        return classify(fn, a, at, depth + 1)
    if isinstance(e, ast.BinOp) and isinstance(e.op, ast.Add):
        l, r = classify(fn, e.left, at, depth + 1), classify(fn, e.right, at, depth + 1)
        parts = (l[1] if l[0] == 'CAT' else [l]) + (r[1] if r[0] == 'CAT' else [r])
        return ('CAT', parts)
    if isinstance(e, ast.ListComp) and len(e.generators) == 1:
        g = e.generators[0]
        it = ast.unparse(g.iter).replace(' ', '')
        elt = e.elt
        if it.startswith('range(') and isinstance(elt, ast.IfExp):
            # (MAP[x] if x in MAP else x)
            te = ast.unparse(elt).replace(' ', '')
            v = g.target.id if isinstance(g.target, ast.Name) else None
            if isinstance(elt.body, ast.Subscript) and isinstance(elt.body.value, ast.Name) and ast.unparse(elt.orelse) == v \
                    and te == f'{elt.body.value.id}[{v}]if{v}in{elt.body.value.id}else{v}':
                return ('OUT', elt.body.value.id, it)
        if it.startswith('range(') and isinstance(elt, ast.Call) and isinstance(elt.func, ast.Attribute) and elt.func.attr == 'get':
            v = g.target.id if isinstance(g.target, ast.Name) else None
            if [ast.unparse(a) for a in elt.args] == [v, v] and isinstance(elt.func.value, ast.Name):
                return ('OUT', elt.func.value.id, it)
        # [MAP[x] for x in index]  -> the fresh legs, in the order of index
        if isinstance(elt, ast.Subscript) and isinstance(elt.value, ast.Name) and isinstance(g.target, ast.Name) \
                and ast.unparse(elt.slice) == g.target.id and ast.unparse(g.iter).startswith('index'):
            return ('F', 'map', 'map')
    return ('?', t)


def _map_ok(fn, name, at):
    """MAP = {x:y for x,y in zip(I, F)}  or  {y:(x+n) for x,y in enumerate(I)}  : chosen -> fresh."""
    v, st = _def(fn, name, at)
    if not isinstance(v, ast.DictComp):
        return None
    g = v.generators[0]
    it = ast.unparse(g.iter).replace(' ', '')
    k, val = ast.unparse(v.key).replace(' ', ''), ast.unparse(v.value).replace(' ', '')
    if it.startswith('zip(') and isinstance(g.target, ast.Tuple) and len(g.target.elts) == 2:
        a, b = [x.id for x in g.target.elts]
        first = g.iter.args[0]
        c1 = classify(fn, first, st)
        c2 = classify(fn, g.iter.args[1], st)
        if k == a and val == b and c1[0] == 'I' and c2[0] == 'F':
            return 'chosen->fresh'
        if k == b and val == a and c1[0] == 'I' and c2[0] == 'F':
            return 'fresh->chosen'
        return None
    if it.startswith('enumerate(') and isinstance(g.target, ast.Tuple):
        a, b = [x.id for x in g.target.elts]
        if k == b and val.replace('(', '').replace(')', '').startswith(a + '+'):
            return 'chosen->fresh'
    return None


def _contracts(fn):
    out = []
    for c in ast.walk(fn):
        if isinstance(c, ast.Call) and ast.unparse(c.func) in ('opt_einsum.contract', 'np.einsum', 'numpy.einsum'):
            out.append(c)
    return out


def _shape(cls):
    if cls[0] == 'CAT':
        return '+'.join(_shape(p) for p in cls[1])
    return {'Q': 'Q', 'F': 'F', 'I': 'I', 'OUT': 'OUT'}.get(cls[0], '?')


def r1(proj, rep):
    rep.rule('R1', RULE_R1)
    n = 0
    sites = [
        ('numqi.sim.state.apply_gate', [('Q', 'F+I', 'OUT', None)]),
        ('numqi.sim.dm.apply_gate', [('Q', 'F+I', 'OUT', False), ('Q', 'F+I', 'OUT', True)]),
    ]
    for q, expects in sites:
        fi = proj.func(q)
        m = fi.module
        rep.touch(m)
        cs = _contracts(fi.node)
        if len(cs) != len(expects):
            rep.undecided('R1', q, f'{len(cs)} contractions found (expected {len(expects)})', m, fi.node, text=f'{q} contractions')
            continue
        for k, (c, (e_state, e_op, e_out, want_conj)) in enumerate(zip(cs, expects)):
            n += 1
            construct = f'{q}[contraction {k + 1}]'
            if len(c.args) != 5:
                rep.undecided('R1', construct, 'contraction does not have the (state, legs, op, legs, out) form', m, c)
                continue
            st_legs, op_legs, out_legs = (classify(fi.node, c.args[i], c) for i in (1, 3, 4))
            got = (_shape(st_legs), _shape(op_legs), _shape(out_legs))
            mp = _map_ok(fi.node, out_legs[1], c) if out_legs[0] == 'OUT' else None
            # conj of the operator operand
            opv = c.args[2]
            if isinstance(opv, ast.Name):
                v, _ = _def(fi.node, opv.id, c)
                opv = v if v is not None else opv
            # follow one more local alias (tmp2 = op_conj.reshape(..); op_conj = ...)
            for _ in range(2):
                base = opv
                while isinstance(base, ast.Call) and isinstance(base.func, ast.Attribute) and base.func.attr in ('reshape', 'view'):
                    base = base.func.value
                if isinstance(base, ast.Name) and base.id not in fi.params:
                    v2, _st = _def(fi.node, base.id, c)
                    if v2 is not None:
                        opv = v2
                        continue
                opv = base if isinstance(base, ast.IfExp) else opv
                break
            txt = ast.unparse(opv).replace(' ', '')
            is_conj = ('conj' in txt)
            cond_bad = None
            if isinstance(opv, ast.IfExp):
                # a conditional conjugate is only sound when the condition inspects the operator itself
                tnames = {x.id for x in ast.walk(opv.test) if isinstance(x, ast.Name)}
                if 'op' not in tnames:
                    cond_bad = ast.unparse(opv)
            if '?' in ''.join(got):
                rep.undecided('R1', construct, f'leg lists not in the relabelling idiom: state {got[0]}, operator {got[1]}, output {got[2]}', m, c)
            elif got[1] == 'I+F':
                rep.violation('R1', construct, 'operator legs are ordered (chosen, fresh): the operator\'s ROW legs are contracted with the state, i.e. '
                              'op^T is applied instead of op (invisible for symmetric gates such as X, Z, H, CNOT)', m, c)
            elif got != (e_state, e_op, e_out):
                rep.violation('R1', construct, f'leg lists have the form state {got[0]}, operator {got[1]}, output {got[2]}; the embedding needs '
                              f'state {e_state}, operator {e_op} (fresh/output legs first), output {e_out}', m, c)
            elif mp != 'chosen->fresh':
                rep.violation('R1', construct, f'the relabelling map `{out_legs[1]}` is {mp or "not recognised"}: the output must carry the fresh leg at '
                              f'the position of each chosen qubit', m, c)
            elif want_conj is True and cond_bad:
                rep.violation('R1', construct, f'the right application conjugates the operator only under a condition that does not inspect the '
                              f'operator: `{cond_bad}` - for a complex gate on the other branch the routine returns U rho U^T', m, c)
            elif want_conj is True and not is_conj:
                rep.violation('R1', construct, 'the right application contracts the un-conjugated operator with the column legs: the routine returns '
                              'U rho U^T instead of U rho U^dagger (invisible for real gates)', m, c)
            elif want_conj is False and is_conj:
                rep.violation('R1', construct, 'the left application uses the conjugated operator', m, c)
            else:
                rep.ok('R1', construct, f'state {got[0]}, operator {got[1]}{" (conjugated)" if is_conj else ""}, output {got[2]} with {mp}', m, c)
    # operator gradient: contract(grad, Q, conj_state, Q[i->f], I+F)  => d/d op[row=i?]
    for q in ('numqi.sim.state.apply_gate_grad', 'numqi.sim.state.apply_control_n_gate_grad'):
        fi = proj.func(q)
        m = fi.module
        cs = _contracts(fi.node)
        if len(cs) != 1 or len(cs[0].args) != 5:
            rep.undecided('R1', q, 'op_grad contraction not found', m, fi.node, text=f'{q} op_grad')
            continue
        c = cs[0]
        n += 1
        out = classify(fi.node, c.args[4], c)
        first = ast.unparse(c.args[0])
        second = ast.unparse(c.args[2])
        # tmp0 <- q0_grad (plain legs Q), tmp2 <- q0_conj (legs with chosen->fresh by the for-loop assignment tmp3[y] = n + x)
        v0, _ = _def(fi.node, first, c)
        v2, _ = _def(fi.node, second, c)
        g_first = v0 is not None and 'q0_grad' in ast.unparse(v0)
        c_second = v2 is not None and 'q0_conj' in ast.unparse(v2)
        relabel = any(isinstance(s, ast.Assign) and isinstance(s.targets[0], ast.Subscript) and isinstance(s.targets[0].value, ast.Name)
                      and s.targets[0].value.id == ast.unparse(c.args[3]) for s in ast.walk(fi.node))
        if _shape(out) == 'I+F' and g_first and c_second and relabel:
            rep.ok('R1', q, 'op_grad[row, col] = sum grad[.. row ..] * conj_state[.. col ..]: output legs (chosen of grad, fresh of conj state)', m, c)
        elif _shape(out) == 'F+I' and g_first and c_second:
            rep.violation('R1', q, 'op_grad legs are (fresh, chosen): the gradient of op^T is returned (wrong for every non-symmetric parametrised gate)', m, c)
        else:
            # fresh legs collected by scanning the relabelled list: they come out in QUBIT-POSITION order, not in the order of `index`
            parts = out[1] if out[0] == 'CAT' else [out]
            scan = None
            if len(parts) == 2 and parts[0][0] == 'I' and isinstance(c.args[4], (ast.BinOp, ast.Name)):
                e4 = c.args[4]
                if isinstance(e4, ast.Name):
                    e4, _ = _def(fi.node, e4.id, c)
                if isinstance(e4, ast.BinOp) and isinstance(e4.right, ast.ListComp) and e4.right.generators[0].ifs \
                        and ast.unparse(e4.right.generators[0].iter) == ast.unparse(c.args[3]):
                    scan = e4.right
            if scan is not None and g_first and c_second:
                rep.violation('R1', q, f'the fresh (column) legs of op_grad are `{ast.unparse(scan)}`: they are listed in qubit-position order, not in the order of '
                              f'`index`, so for a gate on non-ascending qubits (e.g. (2,0)) the input axes of the operator gradient are permuted', m, c)
            else:
                rep.undecided('R1', q, f'op_grad contraction not in the recognised form (output {_shape(out)})', m, c)
                n -= 1
    # expectation
    q = 'numqi.sim.dm.operator_expectation'
    fi = proj.func(q)
    m = fi.module
    cs = _contracts(fi.node)
    if len(cs) == 1 and len(cs[0].args) == 5:
        c = cs[0]
        n += 1
        dm_legs = classify(fi.node, c.args[1], c)
        op_legs = classify(fi.node, c.args[3], c)
        if _shape(dm_legs) == 'OUT+Q' and _shape(op_legs) == 'I+F':
            rep.ok('R1', q, 'rho legs (row: chosen->fresh | col: Q), op legs (row = chosen col-leg of rho, col = fresh row-leg of rho): Tr(rho O)', m, c)
        elif _shape(dm_legs) == 'OUT+Q' and _shape(op_legs) == 'F+I':
            rep.violation('R1', q, 'op legs (fresh, chosen) with rho rows relabelled: computes Tr(rho O^T)', m, c)
        elif _shape(dm_legs) == 'Q+OUT' and _shape(op_legs) == 'F+I':
            rep.ok('R1', q, 'rho legs (row: Q | col: chosen->fresh), op legs (fresh, chosen): Tr(rho O)', m, c)
        else:
            rep.undecided('R1', q, f'leg lists rho {_shape(dm_legs)}, op {_shape(op_legs)} not recognised', m, c)
    else:
        # no contraction of its own: delegating to a helper that treats the targets as a SET loses their order
        pt = next((c for c in ast.walk(fi.node) if isinstance(c, ast.Call) and ast.unparse(c.func).endswith('partial_trace') and len(c.args) >= 3), None)
        if pt is not None and any(isinstance(x, ast.Name) and x.id.startswith('index') for x in ast.walk(pt.args[2])):
            n += 1
            rep.violation('R1', q, f'`{ast.unparse(pt)[:80]}`: the ordered target tuple is passed as `keep_index` of partial_trace, which sorts it (a set): for non-ascending targets '
                          f'the operator factors are paired with the wrong qubits (<Z_0 X_1> instead of <Z_1 X_0>)', m, pt)
    # control-subspace target relabelling: position of each target among the non-control qubits
    q = 'numqi.sim.state._control_n_index'
    fi = proj.func(q)
    m = fi.module
    n += 1
    src = ast.unparse(fi.node).replace(' ', '')
    lst = [s2 for s2 in ast.walk(fi.node) if isinstance(s2, ast.Assign) and isinstance(s2.value, ast.ListComp) and s2.value.generators[0].ifs]
    mp = [s2 for s2 in ast.walk(fi.node) if isinstance(s2, ast.Assign) and isinstance(s2.value, ast.DictComp)]
    new = [s2 for s2 in ast.walk(fi.node) if isinstance(s2, ast.Assign) and isinstance(s2.value, ast.ListComp) and isinstance(s2.value.elt, ast.Subscript)]
    ok_idiom = False
    if lst and mp and new:
        a = lst[0]
        gen = a.value.generators[0]
        keep_non_control = 'notin' in ast.unparse(gen.ifs[0]).replace(' ', '') and ast.unparse(gen.iter).replace(' ', '').startswith('range(')
        d = mp[0].value
        inv = ast.unparse(d.generators[0].iter).replace(' ', '') == f'enumerate({a.targets[0].id})' and isinstance(d.generators[0].target, ast.Tuple) \
            and ast.unparse(d.key) == d.generators[0].target.elts[1].id and ast.unparse(d.value) == d.generators[0].target.elts[0].id
        look = isinstance(new[0].value.elt.value, ast.Name) and new[0].value.elt.value.id == mp[0].targets[0].id
        ok_idiom = keep_non_control and inv and look
    if ok_idiom:
        rep.ok('R1', q, 'targets are relabelled by their position among the non-control qubits (inverse of the kept-qubit list)', m, new[0])
    else:
        n -= 1      # the recognised idiom is gone: the floor turns this into an analysis error unless a certain violation is found
        # a uniform offset (the same number subtracted from every target) is certainly wrong: a control lying BETWEEN two targets shifts only the later one
        for s2 in ast.walk(fi.node):
            if isinstance(s2, ast.Assign) and isinstance(s2.value, ast.ListComp) and isinstance(s2.value.elt, ast.BinOp) and isinstance(s2.value.elt.op, ast.Sub):
                gen = s2.value.generators[0]
                if ast.unparse(gen.iter) == 'ind_target' and isinstance(gen.target, ast.Name):
                    off = s2.value.elt.right
                    if gen.target.id not in {x.id for x in ast.walk(off) if isinstance(x, ast.Name)}:
                        rep.violation('R1', q, f'`{ast.unparse(s2)}` subtracts the same offset `{ast.unparse(off)}` from every target: with a control qubit '
                                      f'between two targets (e.g. target (0,2), control 1) the later target keeps a wrong position in the control subspace', m, s2)
                        n += 1
        rep.undecided('R1', q, 'target relabelling is not the recognised idiom (list of non-control qubits -> inverse map -> lookup)', m, fi.node,
                      text='control target relabelling')
    rep.count('R1.contractions', n)
    return n
