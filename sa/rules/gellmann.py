"""G — Gell-Mann coefficient-vector layout typing (C02, C16, C20).

The coefficient vector has the record layout  [ S : N | A : N | D : d-1 | I : 1 ],  N = d(d-1)/2.
G1 reads the layout off numqi/gellmann.py itself (basis stacking order, analysis concat order, synthesis slices, both
backends) and checks that they agree with each other and with the documented order "PauliX, PauliY, PauliZ, I".
G2 types every producer that feeds gellmann_basis_to_matrix: segments of a concat / slice stores into zeros get symbolic
widths (Poly), are matched to fields, and the projection applied to the synthesised matrix (.imag keeps A only; .real
keeps S, D, I) must keep every field that carries data - a parameter written only to discarded fields makes the map
constant.
"""
import ast
from ..project import AnalysisError
from ..callgraph import resolve_callee
from ..poly import Poly, SymEval, UNK
from ..dataflow import reaching_defs
from .manifold import func_lengths

GM = 'numqi.gellmann'
SYNTH = 'numqi.gellmann.gellmann_basis_to_matrix'

RULES = {
    'G1': 'G1: numqi.gellmann agrees with itself on the layout [S|A|D|I]: the basis is stacked sym, antisym, diag, identity; '
          'gellmann_matrix(i,j) is X-like for i<j, Y-like (+i below / -i above the diagonal) for i>j; analysis concatenates '
          '[aS,aA,aD,aI] with aS from (A+A^T)/2 and aA from (A-A^T)*(i/2); synthesis slices [:N],[N:2N],[2N:-1],[-1:] and places '
          'vec0 -/+ 1j*vec1 above/below the diagonal - in both backends.',
    'G2': 'G2: every vector handed to gellmann_basis_to_matrix that is followed by a projection is built so that the projection '
          'keeps every field carrying data: `.imag` reads field A only, `.real` reads S, D and I.  Segment widths are exact '
          'polynomials and must tile the field boundaries 0, N, 2N, 2N+d-1, d^2.',
}
CONCAT = {'numpy.concatenate', 'torch.concat', 'torch.cat', 'torch.concatenate', 'numpy.hstack'}
ZEROS = {'numpy.zeros', 'torch.zeros'}


def _ext(proj, m, call):
    r = resolve_callee(proj, m, call)
    return r.qual if r.kind == 'external' else None


# ------------------------------------------------------------------------------------------------ G1
def g1(proj, rep):
    rep.rule('G1', RULES['G1'])
    m = proj.mod(GM)
    rep.touch(m)
    n = 0
    # (a) basis element arms
    f = proj.func(f'{GM}.gellmann_matrix')
    arms = {}
    node = next((s for s in f.node.body if isinstance(s, ast.If)), None)
    while node is not None:
        data = None
        for s in node.body:
            if isinstance(s, ast.Assign) and isinstance(s.targets[0], ast.Name) and s.targets[0].id == 'data':
                data = s.value
        arms[ast.unparse(node.test)] = data
        if len(node.orelse) == 1 and isinstance(node.orelse[0], ast.If):
            node = node.orelse[0]
        else:
            break
    n += 1
    ok_a = ok_s = False
    for t, d in arms.items():
        txt = ast.unparse(d) if d is not None else ''
        if t.replace(' ', '') in ('i>j', 'j<i'):
            ok_a = txt.replace(' ', '') == '[1j,-1j]'
            anode = d
        if t.replace(' ', '') in ('j>i', 'i<j'):
            ok_s = txt.replace(' ', '') == '[1,1]'
    if ok_a and ok_s:
        rep.ok('G1', f.qual, 'i<j -> [1,1] (X-like), i>j -> [1j,-1j] (Y-like)', m, f.node, text='gellmann_matrix arms')
    elif not arms:
        rep.undecided('G1', f.qual, 'arm structure not recognised', m, f.node, text='gellmann_matrix arms')
    else:
        rep.violation('G1', f.qual, f'off-diagonal arms are {({k: (ast.unparse(v) if v is not None else None) for k, v in arms.items()})}: '
                      f'expected i<j -> [1,1] and i>j -> [1j,-1j] (Hermitian, Tr G_i G_j = 2 delta)', m, f.node, text='gellmann_matrix arms')
    # (b) stacking order
    f = proj.func(f'{GM}._all_gellmann_matrix_cache')
    kinds = {}
    for s in f.node.body:
        if isinstance(s, ast.Assign) and isinstance(s.targets[0], ast.Name) and isinstance(s.value, (ast.ListComp, ast.List)):
            c = s.value.elt if isinstance(s.value, ast.ListComp) else (s.value.elts[0] if s.value.elts else None)
            if isinstance(c, ast.Call) and isinstance(c.func, ast.Name) and c.func.id == 'gellmann_matrix' and len(c.args) >= 2:
                a0, a1 = ast.unparse(c.args[0]), ast.unparse(c.args[1])
                k = None
                if a0 == a1 == '0':
                    k = 'I'
                elif a0 == a1:
                    k = 'D'
                elif isinstance(s.value, ast.ListComp) and len(s.value.generators) == 2:
                    g0, g1_ = s.value.generators
                    outer, inner = g0.target.id, g1_.target.id
                    # inner ranges over (outer+1 .. d): inner > outer
                    if ast.unparse(g1_.iter).replace(' ', '') == f'range({outer}+1,d)':
                        if (a0, a1) == (outer, inner):
                            k = 'S'       # i<j
                        elif (a0, a1) == (inner, outer):
                            k = 'A'       # i>j
                kinds[s.targets[0].id] = k
    order = None
    for s in ast.walk(f.node):
        if isinstance(s, ast.Call) and _ext(proj, m, s) == 'numpy.stack' and s.args and isinstance(s.args[0], ast.BinOp):
            names = []

            def fl(e):
                if isinstance(e, ast.BinOp) and isinstance(e.op, ast.Add):
                    fl(e.left)
                    fl(e.right)
                elif isinstance(e, ast.Name):
                    names.append(e.id)
            fl(s.args[0])
            order = [kinds.get(x) for x in names]
            onode = s
            break
    n += 1
    if order == ['S', 'A', 'D', 'I']:
        rep.ok('G1', f.qual, 'basis stacked as sym + antisym + diag + identity', m, onode, text='stack order')
    elif order is None or None in (order or [None]):
        rep.undecided('G1', f.qual, f'stack order not recognised: {order}', m, f.node, text='stack order')
    else:
        rep.violation('G1', f.qual, f'basis stacked in field order {order}, documented and consumed order is S,A,D,I', m, onode, text='stack order')
    # (c) analysis
    f = proj.func(f'{GM}.matrix_to_gellmann_basis')
    nconc = 0
    for c in ast.walk(f.node):
        if isinstance(c, ast.Call) and _ext(proj, m, c) in CONCAT and c.args and isinstance(c.args[0], ast.List):
            nconc += 1
            n += 1
            names = [_root_name(e) for e in c.args[0].elts]
            backend = 'torch' if (_ext(proj, m, c) or '').startswith('torch') else 'numpy'
            defs = {}
            for nm in names:
                if nm is None:
                    continue
                rd = [v for v, st, p in reaching_defs(f.node, nm, c) if v != 'param' and p is None]
                defs[nm] = rd[0] if len(rd) == 1 else None
            kinds = [_analysis_kind(defs.get(nm)) for nm in names]
            if kinds == ['S', 'A', 'D', 'I']:
                rep.ok('G1', f'{f.qual}[{backend}]', f'concat [{", ".join(str(x) for x in names)}] = [S,A,D,I]', m, c)
            elif None in kinds:
                rep.undecided('G1', f'{f.qual}[{backend}]', f'segment kinds {kinds} for {names}', m, c)
            else:
                rep.violation('G1', f'{f.qual}[{backend}]', f'analysis concatenates fields in order {kinds} ({names}); the basis and the '
                              f'synthesis use S,A,D,I', m, c)
    if nconc < 2:
        rep.undecided('G1', f.qual, f'{nconc} concat sites found (expected one per backend)', m, f.node, text='analysis concat sites')
    tril = [c for c in ast.walk(f.node) if isinstance(c, ast.Call) and ast.unparse(c.func).split('.')[-1] in ('tril_indices', 'tril_indices_from')]
    if tril:
        n += 1
        rep.violation('G1', f.qual, f'`{ast.unparse(tril[0])[:60]}`: the analysis reads off-diagonal coefficients in tril order (1,0),(2,0),(2,1),(3,0).. while the basis and the '
                      f'synthesis enumerate pairs in triu order (0,1),(0,2),..,(1,2),.. transposed: from d = 4 on the antisymmetric block of the coefficient vector is permuted', m, tril[0])
    # (d) synthesis slices
    f = proj.func(SYNTH)
    se = SymEval({'N1': Poly.var('d')})
    want = {'vec0': ('0', 'N'), 'vec1': ('N', '2N'), 'vec2': ('2N', '-1'), 'vec3': ('-1', 'end')}
    Np = (Poly.var('d') * Poly.var('d') - Poly.var('d')).div_const(2)
    marks = {'0': 0, 'N': Np, '2N': Np * 2, '-1': -1, 'end': None}
    got = {}
    for s in f.node.body:
        if isinstance(s, ast.Assign) and isinstance(s.targets[0], ast.Name) and s.targets[0].id in want:
            v = s.value
            while isinstance(v, ast.BinOp):
                v = v.left
            if isinstance(v, ast.Subscript) and isinstance(v.slice, ast.Tuple) and len(v.slice.elts) == 2 and isinstance(v.slice.elts[1], ast.Slice):
                sl = v.slice.elts[1]
                lo = se.ev(sl.lower) if sl.lower is not None else 0
                hi = se.ev(sl.upper) if sl.upper is not None else None
                got[s.targets[0].id] = (lo, hi, s)
    for nm, (wl, wh) in want.items():
        n += 1
        if nm not in got:
            rep.undecided('G1', f'{f.qual}[{nm}]', 'slice not found', m, f.node, text=f'synthesis {nm}')
            continue
        lo, hi, s = got[nm]
        okl = _same(lo, marks[wl])
        okh = (hi is None and marks[wh] is None) or (hi is not None and marks[wh] is not None and _same(hi, marks[wh]))
        if okl and okh:
            rep.ok('G1', f'{f.qual}[{nm}]', f'reads [{wl}:{wh}]', m, s)
        elif lo is UNK or hi is UNK:
            rep.undecided('G1', f'{f.qual}[{nm}]', 'slice bounds not derivable', m, s)
        else:
            rep.violation('G1', f'{f.qual}[{nm}]', f'reads [{lo}:{hi}], field boundaries are [{wl}:{wh}] (N=d(d-1)/2)', m, s)
    # placement of vec0 -/+ 1j*vec1
    placements = []
    for c in ast.walk(f.node):
        if isinstance(c, ast.BinOp) and isinstance(c.op, (ast.Add, ast.Sub)) and ast.unparse(c.left) == 'vec0' \
                and ast.unparse(c.right).replace(' ', '') == '1j*vec1':
            st = c
            while not isinstance(st, ast.stmt):
                st = getattr(st, '_parent')
            transposed = 'transpose' in ast.unparse(st) or '.T' in ast.unparse(st)
            # numpy arm: `tmp0[...] = vec0 + 1j*vec1` then `ret += tmp0.transpose(0,2,1)`
            if not transposed and isinstance(st, ast.Assign) and isinstance(st.targets[0], ast.Subscript) and isinstance(st.targets[0].value, ast.Name):
                nm = st.targets[0].value.id
                for s2 in ast.walk(f.node):
                    if isinstance(s2, (ast.AugAssign, ast.Assign)) and f'{nm}.transpose' in ast.unparse(s2):
                        transposed = True
            placements.append(('-' if isinstance(c.op, ast.Sub) else '+', transposed, st))
    for sign, tr, st in placements:
        n += 1
        # upper triangle (not transposed) carries vec0 - 1j*vec1 ; lower (transposed) carries vec0 + 1j*vec1
        if (sign == '-') == (not tr):
            rep.ok('G1', f'{f.qual}[offdiag]', f'vec0 {sign} 1j*vec1 placed {"below" if tr else "above"} the diagonal', m, st)
        else:
            rep.violation('G1', f'{f.qual}[offdiag]', f'vec0 {sign} 1j*vec1 is placed {"below" if tr else "above"} the diagonal: the synthesis '
                          f'returns the complex conjugate of the documented combination (Y-like coefficients flip sign)', m, st)
    if len(placements) < 4:
        rep.undecided('G1', f'{f.qual}[offdiag]', f'{len(placements)} off-diagonal placements found (expected 2 per backend)', m, f.node, text='offdiag count')
    rep.count('G1.obligations', n)
    return n


def _same(a, b):
    pa, pb = Poly._coerce(a) if not isinstance(a, type(UNK)) else None, Poly._coerce(b)
    return pa is not None and pb is not None and pa == pb


def _root_name(e):
    while True:
        if isinstance(e, ast.Name):
            return e.id
        if isinstance(e, ast.Subscript):
            e = e.value
        elif isinstance(e, ast.Call) and isinstance(e.func, ast.Attribute):
            e = e.func.value
        elif isinstance(e, ast.Attribute):
            e = e.value
        else:
            return None


def _analysis_kind(v):
    if v is None:
        return None
    t = ast.unparse(v).replace(' ', '')
    if 'A+A.transpose' in t:
        return 'S'
    if 'A-A.transpose' in t:
        return 'A' if '0.5j' in t else None
    if 'cumsum' in t:
        return 'D'
    if 'trace' in t or 'einsum(A,[0,1,1],[0])' in t:
        return 'I'
    return None


# ------------------------------------------------------------------------------------------------ G2
class _Seg:
    def __init__(self, width, kind, text):
        self.width, self.kind, self.text = width, kind, text


def _path_ifs(node, fn):
    """[(If node, taken_branch_is_body)] from outermost to innermost for a node inside function fn."""
    out = []
    child = node
    p = getattr(node, '_parent', None)
    while p is not None and p is not fn:
        if isinstance(p, ast.If):
            inbody = any(child is s or child in ast.walk(s) for s in p.body)
            out.append((p, inbody))
        child = p
        p = getattr(p, '_parent', None)
    return out[::-1]


def _env_at(proj, fi, call):
    """Symbolic environment on the path to `call` (forced through the enclosing ifs)."""
    fn = fi.node
    dimvars = [p for p in fi.params if p in ('dim', 'd', 'N0', 'dim_in', 'dimA')]
    env = {}
    for p in fi.params:
        env[p] = UNK
    for p in ('dim', 'd', 'rank', 'N0', 'N1', 'dim_in', 'num_sym', 'num_antisym', 'num_hermite'):
        if p in fi.params:
            env[p] = Poly.var(p)
    path = _path_ifs(call, fn)
    forced = {id(i): b for i, b in path}
    facts = {}
    for i, b in path:
        t = i.test
        if isinstance(t, ast.Name):
            facts[t.id] = b
        elif isinstance(t, ast.UnaryOp) and isinstance(t.op, ast.Not) and isinstance(t.operand, ast.Name):
            facts[t.operand.id] = not b
    lens = func_lengths(proj, fi, {k: v for k, v in facts.items() if k != 'is_real'})
    se = SymEval(env)
    pinned = dict(facts)
    stop = call
    while not isinstance(stop, ast.stmt):
        stop = getattr(stop, '_parent')

    def run(body):
        for st in body:
            if st is stop:
                return False
            if isinstance(st, ast.If):
                if id(st) in forced:
                    r = run(st.body if forced[id(st)] else st.orelse)
                    if r is False:
                        return False
                    continue
                tv = se.ev(st.test)
                if tv is True:
                    if run(st.body) is False:
                        return False
                elif tv is False:
                    if run(st.orelse) is False:
                        return False
                else:
                    for s in ast.walk(st):
                        if isinstance(s, ast.Name) and isinstance(s.ctx, ast.Store) and s.id not in pinned:
                            se.env[s.id] = UNK
                continue
            if isinstance(st, ast.Assign) and len(st.targets) == 1 and isinstance(st.targets[0], ast.Tuple) \
                    and _is_shape_expr(st.value):
                for e in st.targets[0].elts:
                    if isinstance(e, ast.Name) and e.id != '_' and e.id not in pinned:
                        se.env[e.id] = Poly.var(e.id)
                continue
            if isinstance(st, ast.Assign) and len(st.targets) == 1 and isinstance(st.targets[0], ast.Name):
                nm = st.targets[0].id
                if nm in pinned:
                    continue
                if nm in ('theta',):
                    continue
                v = se.ev(st.value)
                if v is UNK and _is_shape_expr(st.value):
                    v = Poly.var(nm)
                se.env[nm] = v
            elif isinstance(st, (ast.For, ast.While, ast.With, ast.Try)):
                if any(s is stop for s in ast.walk(st)):
                    run(getattr(st, 'body', []))
                    return False
        return True
    for k, v in pinned.items():
        se.env[k] = v
    run(fn.body)
    for k, v in pinned.items():
        se.env[k] = v
    # length of theta on this path
    L = UNK
    if 'is_real' in pinned and lens:
        L = lens.get('real' if pinned['is_real'] else 'complex', UNK)
    se.env['<LEN>'] = L
    return se


def _is_shape_expr(v):
    """x.shape, x.shape[k], len(x), int(<shape expr>): an unknown non-negative integer."""
    if isinstance(v, ast.Attribute) and v.attr == 'shape':
        return True
    if isinstance(v, ast.Subscript):
        return _is_shape_expr(v.value)
    if isinstance(v, ast.Call) and isinstance(v.func, ast.Name) and v.func.id in ('len', 'int') and v.args:
        return v.func.id == 'len' or _is_shape_expr(v.args[0])
    return False


WIDTH_PRESERVING = {'numqi.matrix_space._misc.reduce_vector_space', 'numqi.matrix_space._misc.get_vector_orthogonal_basis'}


def _col_slice(sub):
    """The column slice of `x[:, a:b]` (2-d) or `x[a:b]` (1-d); None otherwise."""
    sl = sub.slice
    if isinstance(sl, ast.Tuple) and len(sl.elts) == 2 and isinstance(sl.elts[1], ast.Slice) and isinstance(sl.elts[0], ast.Slice):
        return sl.elts[1]
    if isinstance(sl, ast.Slice):
        return sl
    return None


def _loop_alternatives(fi, name, at):
    """`for name in [a, b]:` enclosing `at` -> [a, b] expressions."""
    p = getattr(at, '_parent', None)
    while p is not None and p is not fi.node:
        if isinstance(p, ast.For) and isinstance(p.target, ast.Name) and p.target.id == name and isinstance(p.iter, (ast.List, ast.Tuple)):
            return list(p.iter.elts), p
        p = getattr(p, '_parent', None)
    return None, None


def _width_of(proj, m, fi, se, e, at, depth=0):
    """(width Poly|UNK, kind 'zero'|'data') of the last axis of a segment expression."""
    if depth > 24:
        return UNK, 'data'
    if isinstance(e, ast.Call):
        q = _ext(proj, m, e)
        if q in ZEROS or q in ('numpy.ones', 'torch.ones'):
            kind = 'zero' if q in ZEROS else 'data'
            if q.startswith('numpy') and e.args:
                shp = e.args[0]
                if isinstance(shp, (ast.Tuple, ast.List)):
                    return (se.ev(shp.elts[-1]) if shp.elts else UNK), kind
                return se.ev(shp), kind           # 1-d: zeros(n)
            if q.startswith('torch') and e.args:
                return se.ev(e.args[min(1, len(e.args) - 1)]), kind
            return UNK, kind
        r = resolve_callee(proj, m, e)
        if r.kind == 'func' and r.qual in WIDTH_PRESERVING and e.args:
            w, k = _width_of(proj, m, fi, se, e.args[0], at, depth + 1)
            return w, 'data'
        if q in CONCAT and e.args and isinstance(e.args[0], ast.List):
            tot = Poly.const(0)
            for x in e.args[0].elts:
                w, k = _width_of(proj, m, fi, se, x, at, depth + 1)
                if w is UNK:
                    return UNK, 'data'
                tot = tot + Poly._coerce(w)
            return tot, 'data'
        if r.kind == 'func' and r.qual == 'numqi.gellmann.matrix_to_gellmann_basis' and e.args:
            for cand in ('N1', 'dim', 'd'):
                v = se.env.get(cand)
                if isinstance(v, Poly):
                    return v * v, 'data'
            return UNK, 'data'
        return UNK, 'data'
    if isinstance(e, ast.Attribute) and e.attr in ('real', 'imag'):
        return _width_of(proj, m, fi, se, e.value, at, depth + 1)
    if isinstance(e, ast.BinOp) and isinstance(e.op, (ast.Add, ast.Sub, ast.Mult)):
        for side in (e.left, e.right):
            w, k = _width_of(proj, m, fi, se, side, at, depth + 1)
            if w is not UNK:
                return w, (k if (k == 'zero' and isinstance(e.op, ast.Mult)) else 'data')
        return UNK, 'data'
    if isinstance(e, ast.Name):
        if e.id in ('theta', 'vec') and '<LEN>' in se.env and se.env['<LEN>'] is not UNK:
            return se.env['<LEN>'], 'data'
        alts, loop = _loop_alternatives(fi, e.id, at)
        if alts:
            ws = [_width_of(proj, m, fi, se, a, loop, depth + 1)[0] for a in alts]
            if all(w is not UNK for w in ws) and all(Poly._coerce(w) == Poly._coerce(ws[0]) for w in ws):
                return ws[0], 'data'
            return UNK, 'data'
        rd = [(v, st, p) for v, st, p in reaching_defs(fi.node, e.id, at) if v != 'param']
        if len(rd) == 1 and rd[0][2] is None:
            return _width_of(proj, m, fi, se, rd[0][0], rd[0][1], depth + 1)
        if len(rd) == 1 and isinstance(rd[0][2], tuple) and isinstance(rd[0][0], ast.Tuple):
            v = rd[0][0]
            for i in rd[0][2]:
                v = v.elts[i]
            return _width_of(proj, m, fi, se, v, rd[0][1], depth + 1)
        return UNK, 'data'
    if isinstance(e, ast.Subscript):
        sl = _col_slice(e)
        if sl is None:
            return UNK, 'data'
        total, kind = _width_of(proj, m, fi, se, e.value, at, depth + 1)
        lo = se.ev(sl.lower) if sl.lower is not None else 0
        hi = se.ev(sl.upper) if sl.upper is not None else total
        if lo is UNK or hi is UNK:
            return UNK, kind
        lo, hi = Poly._coerce(lo), Poly._coerce(hi)
        if hi.is_const() and hi.const_value() < 0:
            if total is UNK:
                return UNK, kind
            hi = Poly._coerce(total) + hi
        return hi - lo, kind
    return UNK, 'data'


def producers(proj, fi, call):
    """Segments [(lo, hi, kind, text)] of the vector passed to a synthesis call: (segs, total, se) or (None, reason, se)."""
    m = fi.module
    se = _env_at(proj, fi, call)
    arg = call.args[0] if call.args else None
    if arg is None:
        return None, 'no argument', se
    src, at, base_name = arg, call, None
    if isinstance(src, ast.Name):
        rd = [(v, st, p) for v, st, p in reaching_defs(fi.node, src.id, call) if v != 'param']
        if len(rd) != 1 or rd[0][2] is not None:
            return None, f'`{src.id}` has {len(rd)} reaching definitions', se
        base_name = src.id
        src, at = rd[0][0], rd[0][1]
    if isinstance(src, ast.Call) and _ext(proj, m, src) in CONCAT and src.args and isinstance(src.args[0], ast.List):
        segs = []
        off = Poly.const(0)
        for e in src.args[0].elts:
            w, kind = _width_of(proj, m, fi, se, e, at)
            if w is UNK:
                return None, f'width of segment `{ast.unparse(e)}` not derivable', se
            w = Poly._coerce(w)
            segs.append((off, off + w, kind, ast.unparse(e)))
            off = off + w
        return segs, off, se
    if isinstance(src, ast.Call) and _ext(proj, m, src) in ZEROS and base_name is not None:
        total, _ = _width_of(proj, m, fi, se, src, at)
        if total is UNK:
            return None, 'zeros width not derivable', se
        total = Poly._coerce(total)
        segs = []
        for s in ast.walk(fi.node):
            if isinstance(s, ast.Assign) and isinstance(s.targets[0], ast.Subscript) and isinstance(s.targets[0].value, ast.Name) \
                    and s.targets[0].value.id == base_name and at.lineno < s.lineno <= call.lineno:
                c = _col_slice(s.targets[0])
                if c is None:
                    return None, f'store `{ast.unparse(s.targets[0])}` is not a column slice', se
                lo = se.ev(c.lower) if c.lower is not None else 0
                hi = se.ev(c.upper) if c.upper is not None else total
                if lo is UNK or hi is UNK:
                    return None, f'slice bounds of `{ast.unparse(s.targets[0])}` not derivable', se
                lo, hi = Poly._coerce(lo), Poly._coerce(hi)
                if hi.is_const() and hi.const_value() < 0:
                    hi = total + hi
                segs.append((lo, hi, 'data', ast.unparse(s)))
        return segs, total, se
    return None, f'producer `{ast.unparse(src)[:50]}` is neither a concat of segments nor zeros+slice stores', se


def _fields(dsym):
    d = Poly.var(dsym)
    N = (d * d - d).div_const(2)
    return [('S', Poly.const(0), N), ('A', N, N * 2), ('D', N * 2, N * 2 + d - 1), ('I', N * 2 + d - 1, d * d)]


def g2(proj, rep, modules=None):
    rep.rule('G2', RULES['G2'])
    nsite = 0
    ntyped = 0
    for fi in proj.iter_functions(modules):
        m = fi.module
        for call in ast.walk(fi.node):
            if not isinstance(call, ast.Call):
                continue
            r = resolve_callee(proj, m, call)
            if not (r.kind == 'func' and r.qual == SYNTH):
                continue
            nsite += 1
            par = getattr(call, '_parent', None)
            proj_kind = par.attr if isinstance(par, ast.Attribute) and par.attr in ('imag', 'real') else None
            if proj_kind is None:
                continue            # whole vector passes through: only the length matters (checked by W3 / runtime assert)
            segs, total, se = producers(proj, fi, call)
            path = _path_ifs(call, fi.node)
            cond = ' and '.join((('' if b else 'not ') + '(' + ast.unparse(i.test) + ')') for i, b in path) or 'always'
            construct = f'{fi.qual}[{cond}]'
            if segs is None:
                rep.undecided('G2', construct, f'producer not typed: {total}', m, call)
                continue
            # find the dimension symbol: total == v*v
            dsym = None
            for v in total.vars():
                if total == Poly.var(v) * Poly.var(v):
                    dsym = v
            if dsym is None:
                rep.undecided('G2', construct, f'total width {total} is not d^2 for a dimension symbol', m, call)
                continue
            ntyped += 1
            fields = _fields(dsym)
            keep = {'imag': {'A'}, 'real': {'S', 'D', 'I'}}[proj_kind]
            bad = None
            occupied = []
            for lo, hi, kind, text in segs:
                if kind == 'zero':
                    continue
                covered = []
                aligned_lo = any(lo == f[1] for f in fields)
                aligned_hi = any(hi == f[2] for f in fields)
                if not (aligned_lo and aligned_hi):
                    # not aligned symbolically: decide containment in the kept fields for concrete dimensions d = 2..8
                    witness = None
                    try:
                        for dv in range(2, 9):
                            l0, h0 = lo.eval({dsym: dv}), hi.eval({dsym: dv})
                            inside = any(fl.eval({dsym: dv}) <= l0 and h0 <= fh.eval({dsym: dv}) for nm, fl, fh in fields if nm in keep)
                            if h0 > l0 and not inside:
                                witness = (dv, l0, h0)
                                break
                    except Exception:
                        witness = None
                    if witness is not None:
                        dv, l0, h0 = witness
                        bad = ('viol', f'data segment `{text[:40]}` spans columns [{lo}:{hi}]; for {dsym}={dv} that is [{l0}:{h0}], which is not inside the field(s) '
                               f'{sorted(keep)} that `.{proj_kind}` reads: part of the parameters never reaches the result (rank-deficient chart)')
                    else:
                        bad = ('und', f'data segment `{text[:40]}` spans [{lo}:{hi}], not aligned with the field boundaries')
                    break
                on = False
                for name, flo, fhi in fields:
                    if flo == lo:
                        on = True
                    if on:
                        covered.append(name)
                    if fhi == hi:
                        break
                occupied.append((covered, text, lo, hi))
                lost = [c for c in covered if c not in keep]
                if lost and not [c for c in covered if c in keep]:
                    bad = ('viol', f'`{text[:50]}` is written to field(s) {covered} = columns [{lo}:{hi}] but `.{proj_kind}` of the synthesised '
                           f'matrix only reads field(s) {sorted(keep)}: the data never reaches the result (constant map)')
                    break
                if lost:
                    bad = ('viol', f'`{text[:50]}` covers fields {covered}; `.{proj_kind}` discards {lost}')
                    break
            if bad is None:
                rep.ok('G2', construct, f'.{proj_kind} keeps every data field: ' + '; '.join(f'{"+".join(c)}<-{t[:25]}' for c, t, _, _ in occupied), m, call)
            elif bad[0] == 'und':
                rep.undecided('G2', construct, bad[1], m, call)
            else:
                rep.violation('G2', construct, bad[1], m, call)
    rep.count('G2.synthesis_call_sites', nsite)
    rep.count('G2.projected_sites_typed', ntyped)
    return nsite, ntyped


# ------------------------------------------------------------------------------------------------ G3
RULES['G3'] = ('G3: where a function analyses matrices into Gell-Mann coordinates, keeps some fields (slices at the field '
               'boundaries), works in the reduced coordinates and synthesises matrices again, the fields that carry data at '
               'synthesis are exactly the fields kept after analysis, in the same order, and the dropped fields are re-inserted '
               'as zeros (get_matrix_orthogonal_basis structure-class arms, detect_commute_matrix).')
ANALYSIS = 'numqi.gellmann.matrix_to_gellmann_basis'


def _analysis_range(proj, m, fi, se, e, at, depth=0):
    """(lo, hi, total) column range, relative to the analysis output, selected by expression e; None if e is not a slice
    (of slices) of an analysis output."""
    if depth > 12:
        return None
    if isinstance(e, ast.Attribute) and e.attr in ('real', 'imag'):
        return _analysis_range(proj, m, fi, se, e.value, at, depth + 1)
    if isinstance(e, ast.Call):
        r = resolve_callee(proj, m, e)
        if r.kind == 'func' and r.qual == ANALYSIS:
            w, _ = _width_of(proj, m, fi, se, e, at)
            if w is UNK:
                return None
            w = Poly._coerce(w)
            return Poly.const(0), w, w
        return None
    if isinstance(e, ast.Name):
        rd = [(v, st, p) for v, st, p in reaching_defs(fi.node, e.id, at) if v != 'param']
        if len(rd) != 1:
            return None
        v, st, p = rd[0]
        if p is None:
            return _analysis_range(proj, m, fi, se, v, st, depth + 1)
        if isinstance(p, tuple) and isinstance(v, ast.Tuple):
            for i in p:
                v = v.elts[i]
            return _analysis_range(proj, m, fi, se, v, st, depth + 1)
        return None
    if isinstance(e, ast.Subscript):
        sl = _col_slice(e)
        if sl is None:
            return None
        base = _analysis_range(proj, m, fi, se, e.value, at, depth + 1)
        if base is None:
            return None
        blo, bhi, total = base
        lo = se.ev(sl.lower) if sl.lower is not None else 0
        hi = se.ev(sl.upper) if sl.upper is not None else (bhi - blo)
        if lo is UNK or hi is UNK:
            return None
        lo, hi = Poly._coerce(lo), Poly._coerce(hi)
        if hi.is_const() and hi.const_value() < 0:
            hi = (bhi - blo) + hi
        return blo + lo, blo + hi, total
    return None


def _fields_of_range(lo, hi, fields):
    cov = []
    on = False
    if not any(lo == f[1] for f in fields) or not any(hi == f[2] for f in fields):
        return None
    for name, flo, fhi in fields:
        if flo == lo:
            on = True
        if on:
            cov.append(name)
        if fhi == hi:
            break
    return cov


def g3(proj, rep, func_quals):
    rep.rule('G3', RULES['G3'])
    n = 0
    for fq in func_quals:
        fi = proj.func(fq)
        m = fi.module
        rep.touch(m)
        for call in ast.walk(fi.node):
            if not isinstance(call, ast.Call):
                continue
            r = resolve_callee(proj, m, call)
            if not (r.kind == 'func' and r.qual == SYNTH):
                continue
            segs, total, se = producers(proj, fi, call)
            if segs is None or not any(k == 'zero' for _, _, k, _ in segs) and len(segs) < 2:
                continue
            if not isinstance(total, Poly):
                continue
            dsym = None
            for v in total.vars():
                if total == Poly.var(v) * Poly.var(v):
                    dsym = v
            if dsym is None:
                continue
            fields = _fields(dsym)
            data_fields = []
            aligned = True
            for lo, hi, kind, text in segs:
                cov = _fields_of_range(lo, hi, fields)
                if cov is None:
                    aligned = False
                    break
                if kind != 'zero':
                    data_fields.extend(cov)
            path = _path_ifs(call, fi.node)
            cond = ' and '.join((('' if b else 'not ') + '(' + ast.unparse(i.test) + ')') for i, b in path) or 'always'
            construct = f'{fq}[{cond}]'
            if not aligned:
                rep.violation('G3', construct, f'synthesis segments {[(str(a), str(b), k) for a, b, k, _ in segs]} do not tile the field '
                              f'boundaries of [S|A|D|I]', m, call)
                n += 1
                continue
            # analysis side: the nearest preceding concat whose elements are slices of an analysis output
            kept = None
            best = None
            for c in ast.walk(fi.node):
                if isinstance(c, ast.Call) and _ext(proj, m, c) in CONCAT and c.args and isinstance(c.args[0], ast.List) \
                        and c.lineno < call.lineno and _same_branch(c, call, fi.node):
                    ks = []
                    ok = True
                    for e in c.args[0].elts:
                        rg = _analysis_range(proj, m, fi, se, e, c)
                        if rg is None:
                            ok = False
                            break
                        cov = _fields_of_range(rg[0], rg[1], _fields_for_total(rg[2]))
                        if cov is None:
                            ok = False
                            break
                        ks.append((cov, 'imag' if (isinstance(e, ast.Attribute) and e.attr == 'imag') else 're'))
                    if ok and ks and (best is None or c.lineno > best.lineno):
                        best, kept = c, ks
            if kept is None:
                continue
            n += 1
            kept_re = [f for cov, part in kept if part == 're' for f in cov]
            if kept_re == data_fields:
                rep.ok('G3', construct, f'fields kept after analysis {kept_re} == data fields at synthesis {data_fields}; '
                       f'zero re-inserted at {[f for f in "SADI" if f not in data_fields]}', m, call)
            else:
                rep.violation('G3', construct, f'analysis keeps fields {kept_re} (line {best.lineno}) but synthesis fills fields {data_fields}: '
                              f'coordinates are re-assembled into the wrong Gell-Mann block', m, call)
    rep.count('G3.sites', n)
    return n


def _fields_for_total(total):
    for v in total.vars():
        if total == Poly.var(v) * Poly.var(v):
            return _fields(v)
    return []


def _same_branch(a, b, fn):
    """No enclosing condition of a contradicts one of b (compared by test text, so two `if tag_real:` blocks agree)."""
    pa = {ast.unparse(i.test): t for i, t in _path_ifs(a, fn)}
    pb = {ast.unparse(i.test): t for i, t in _path_ifs(b, fn)}
    for k, t in pa.items():
        if k in pb and pb[k] != t:
            return False
        if k not in pb:
            return False
    return True


# ------------------------------------------------------------------------------------------------ G4
RULES['G4'] = ('G4: (a) the analysis matrix_to_gellmann_basis and the synthesis gellmann_basis_to_matrix are C-linear in their data: they '
               'apply no conj / .real / .imag / abs / adjoint to it (the coefficient vector of an arbitrary complex matrix is complex, an '
               'anti-linear step is only right for Hermitian input); (b) in _all_gellmann_matrix_cache the single-site list always contains '
               'the identity and the flag with_I is read only AFTER the tensor product, where it drops the last element (I x ... x I): '
               'otherwise the G x I terms are missing for tensor_n >= 2.')

_ANTILINEAR = {'conj', 'conjugate', 'real', 'imag', 'abs', 'absolute', 'H', 'mH', 'adjoint', 'angle'}


def _antilinear_sites(fn):
    out = []
    for x in ast.walk(fn):
        if isinstance(x, ast.Attribute) and x.attr in _ANTILINEAR:
            out.append(x)
        elif isinstance(x, ast.Call) and isinstance(x.func, ast.Name) and x.func.id == 'abs':
            out.append(x)
    return out


def g4(proj, rep):
    rep.rule('G4', RULES['G4'])
    m = proj.mod(GM)
    rep.touch(m)
    n = 0
    # positive control: the rule's matcher must see the `.real` of dm_to_gellmann_basis (Hermitian input: legitimate there)
    ctl = proj.func(f'{GM}.dm_to_gellmann_basis')
    if not _antilinear_sites(ctl.node):
        rep.undecided('G4', ctl.qual, 'positive control lost: no `.real` found in dm_to_gellmann_basis, the matcher may be blind', m, ctl.node,
                      text='positive control')
        return 0
    for q in (f'{GM}.matrix_to_gellmann_basis', SYNTH):
        f = proj.func(q)
        n += 1
        bad = _antilinear_sites(f.node)
        if bad:
            x = bad[0]
            st = x
            while not isinstance(st, ast.stmt):
                st = getattr(st, '_parent')
            rep.violation('G4', q, f'`{ast.unparse(st)[:90]}` applies `{ast.unparse(x)[:40]}` to the data: the map is no longer C-linear, so the '
                          f'coefficients of a non-Hermitian complex matrix are (re)constructed wrongly', m, st)
        else:
            rep.ok('G4', q, 'no anti-linear operation on the data', m, f.node, text='C-linear')
    # (b) with_I only after the tensor product
    f = proj.func(f'{GM}._all_gellmann_matrix_cache')
    n += 1
    body = f.node.body
    kron_idx = next((i for i, s in enumerate(body) if isinstance(s, ast.If) and 'tensor_n' in ast.unparse(s.test)), None)
    if kron_idx is None:
        rep.undecided('G4', f.qual, 'tensor-product stage (`if tensor_n>1`) not found', m, f.node, text='with_I order')
        return n - 1
    early = [x for s in body[:kron_idx + 1] for x in ast.walk(s) if isinstance(x, ast.Name) and x.id == 'with_I']
    late = [s for s in body[kron_idx + 1:] if any(isinstance(x, ast.Name) and x.id == 'with_I' for x in ast.walk(s))]
    if early:
        st = early[0]
        while not isinstance(st, ast.stmt):
            st = getattr(st, '_parent')
        rep.violation('G4', f.qual, f'`{ast.unparse(st)[:90]}` reads with_I before / inside the tensor product: for tensor_n >= 2 and with_I=False '
                      f'the basis loses every G x I element (it must be the with_I=True list minus its last element)', m, st)
    elif len(late) == 1 and isinstance(late[0], ast.If) and ast.unparse(late[0].test).replace(' ', '') == 'notwith_I' \
            and [ast.unparse(s).replace(' ', '') for s in late[0].body] == ['ret=ret[:-1]'] and not late[0].orelse:
        rep.ok('G4', f.qual, 'with_I only drops the last element after the tensor product', m, late[0])
    else:
        rep.undecided('G4', f.qual, 'with_I handling after the tensor product is not the recognised `if not with_I: ret = ret[:-1]`', m, f.node,
                      text='with_I order')
        n -= 1
    rep.count('G4.obligations', n)
    return n


# ------------------------------------------------------------------------------------------------ G5
RULES['G5'] = ('G5: in every structure-class arm of get_matrix_orthogonal_basis the returned basis and the returned complement are produced by the SAME '
               'post-processing of (reduced space, its orthogonal complement): either one loop `for x in [space, complement]`, or two expressions '
               'that are identical after substituting the complement for the space. An extra conj / real / transpose on one of them makes the pair '
               'non-orthogonal (or spans the conjugate space).')


def g5(proj, rep):
    rep.rule('G5', RULES['G5'])
    f = proj.func('numqi.matrix_space._misc.get_matrix_orthogonal_basis')
    m = f.module
    rep.touch(m)
    n = 0
    for st in ast.walk(f.node):
        if not (isinstance(st, ast.Assign) and isinstance(st.targets[0], ast.Name) and st.targets[0].id == 'ret' and isinstance(st.value, ast.Tuple)
                and len(st.value.elts) == 3):
            continue
        a, b, tag = st.value.elts
        # enclosing block
        blk = st._parent
        body = blk.body if st in getattr(blk, 'body', []) else blk.orelse
        local = {}
        for s2 in body:
            if s2 is st:
                break
            if isinstance(s2, ast.Assign) and isinstance(s2.targets[0], ast.Name):
                local[s2.targets[0].id] = s2.value
        n += 1
        construct = f'{f.qual}[{ast.unparse(tag)[:24]}]'
        ta, tb = ast.unparse(a).replace(' ', ''), ast.unparse(b).replace(' ', '')
        if ta == 'ret[0]' and tb == 'ret[1]':
            loop = next((s2 for s2 in body if isinstance(s2, ast.For) and isinstance(s2.iter, ast.List) and len(s2.iter.elts) == 2), None)
            if loop is None:
                rep.undecided('G5', construct, 'loop over [space, complement] not found', m, st)
                n -= 1
                continue
            x, y = [ast.unparse(e) for e in loop.iter.elts]
            ydef = local.get(y)
            if ydef is not None and ast.unparse(ydef).replace(' ', '').startswith(f'get_vector_orthogonal_basis({x},'):
                rep.ok('G5', construct, f'one loop body processes [{x}, {y}] with {y} = complement of {x}', m, loop)
            else:
                rep.violation('G5', construct, f'the loop processes [{x}, {y}] but `{y}` is not get_vector_orthogonal_basis({x}, ...)', m, loop)
            continue
        # explicit pair: resolve names one level
        def resolve(e):
            if isinstance(e, ast.Name) and e.id in local and isinstance(local[e.id], ast.Call):
                return local[e.id]
            return e
        ea, eb = resolve(a), resolve(b)
        na = [x.id for x in ast.walk(ea) if isinstance(x, ast.Name) and x.id in local]
        nb = [x.id for x in ast.walk(eb) if isinstance(x, ast.Name) and x.id in local]
        pair = None
        for y in nb:
            ydef = local.get(y)
            if ydef is not None:
                t = ast.unparse(ydef).replace(' ', '')
                for x in na:
                    if t.startswith(f'get_vector_orthogonal_basis({x},'):
                        pair = (x, y)
        if pair is None:
            rep.undecided('G5', construct, f'(space, complement) pair behind `{ta}`, `{tb}` not identified', m, st)
            n -= 1
            continue
        x, y = pair

        class Sub(ast.NodeTransformer):
            def visit_Name(self, node):
                return ast.copy_location(ast.Name(id=y, ctx=node.ctx), node) if node.id == x else node
        ea2 = Sub().visit(ast.parse(ast.unparse(ea), mode='eval').body)
        if ast.dump(ea2) == ast.dump(ast.parse(ast.unparse(eb), mode='eval').body):
            rep.ok('G5', construct, f'basis and complement are the same expression of {x} / {y}', m, st)
        else:
            rep.violation('G5', construct, f'basis `{ast.unparse(ea)[:60]}` and complement `{ast.unparse(eb)[:60]}` are post-processed differently: the returned '
                          f'pair is not (span, orthogonal complement) of one space', m, st)
    rep.count('G5.return_pairs', n)
    return n


# ------------------------------------------------------------------------------------------------ G6
RULES['G6'] = ('G6: every arm of gellmann_matrix is Hermitian and has Tr(G^2) = 2, and the diagonal arms are traceless and mutually orthogonal, for EVERY d and '
               'index, decided symbolically: off-diagonal arms store a conjugate pair (a, conj a) with |a|^2 + |a|^2 = 2 at mirrored positions; the identity '
               'arm stores d equal entries c with d c^2 = 2; the diagonal arm l stores l entries 1 and one entry -l scaled by s with s^2 (l + l^2) = 2 and '
               'l*1 + (-l) = 0 (traceless, hence orthogonal to the identity arm and to every diagonal arm l\' > l, whose first l+1 entries are equal).')


def g6(proj, rep):
    from fractions import Fraction
    rep.rule('G6', RULES['G6'])
    f = proj.func(f'{GM}.gellmann_matrix')
    m = f.module
    n = 0
    node = next((s for s in f.node.body if isinstance(s, ast.If)), None)
    arms = []
    while node is not None:
        arms.append((ast.unparse(node.test).replace(' ', ''), node.body))
        if len(node.orelse) == 1 and isinstance(node.orelse[0], ast.If):
            node = node.orelse[0]
        else:
            arms.append(('else', node.orelse))
            break

    def asg(body, name):
        return next((s.value for s in body if isinstance(s, ast.Assign) and isinstance(s.targets[0], ast.Name) and s.targets[0].id == name), None)
    for test, body in arms:
        data, i0, i1 = asg(body, 'data'), asg(body, 'ind0'), asg(body, 'ind1')
        if data is None:
            continue
        n += 1
        construct = f'{f.qual}[{test}]'
        if isinstance(data, ast.List) and len(data.elts) == 2:
            try:
                a, b = [complex(ast.literal_eval(e)) for e in data.elts]
            except Exception:
                rep.undecided('G6', construct, 'pair not literal', m, data)
                n -= 1
                continue
            mirrored = i0 is not None and i1 is not None and isinstance(i0, ast.List) and isinstance(i1, ast.List) \
                and [ast.unparse(e) for e in i0.elts] == [ast.unparse(e) for e in reversed(i1.elts)]
            if not mirrored:
                rep.violation('G6', construct, f'positions ind0={ast.unparse(i0)}, ind1={ast.unparse(i1)} are not mirrored (r,c) / (c,r)', m, data)
            elif b != a.conjugate():
                rep.violation('G6', construct, f'entries {ast.unparse(data)} at mirrored positions are not a conjugate pair: the matrix is not Hermitian', m, data)
            elif abs(a) ** 2 + abs(b) ** 2 != 2:
                rep.violation('G6', construct, f'entries {ast.unparse(data)}: Tr(G^2) = {abs(a) ** 2 + abs(b) ** 2:g}, not 2', m, data)
            else:
                rep.ok('G6', construct, f'conjugate pair {ast.unparse(data)} at mirrored positions, Tr(G^2) = 2', m, data)
            continue
        t = ast.unparse(data).replace(' ', '')
        if t in ('np.ones(d)*np.sqrt(2/d)', 'np.sqrt(2/d)*np.ones(d)'):
            # d entries c with c^2 = 2/d -> d*c^2 = 2
            rep.ok('G6', construct, 'd equal real entries c with d*c^2 = d*(2/d) = 2', m, data)
            continue
        if 'np.ones(d)' in t and 'sqrt' in t:
            rep.violation('G6', construct, f'`{t}`: d equal entries c need c^2 = 2/d for Tr(G^2) = 2', m, data)
            continue
        # diagonal arm: s * np.array([1]*l + [-l])
        mm = None
        if isinstance(data, ast.BinOp) and isinstance(data.op, ast.Mult):
            for sc, arr in ((data.left, data.right), (data.right, data.left)):
                if isinstance(arr, ast.Call) and ast.unparse(arr.func).endswith('array') and arr.args and isinstance(arr.args[0], ast.BinOp) and isinstance(arr.args[0].op, ast.Add):
                    mm = (sc, arr.args[0])
        if mm is None:
            rep.undecided('G6', construct, f'`{t[:60]}` not a recognised arm', m, data)
            n -= 1
            continue
        sc, body_e = mm
        lt, rt = ast.unparse(body_e.left).replace(' ', ''), ast.unparse(body_e.right).replace(' ', '')
        se = SymEval({'i': Poly.var('l')})
        # left: [c]*k ; right: [e]
        try:
            c = se.ev(body_e.left.left.elts[0])
            k = se.ev(body_e.left.right)
            e = se.ev(body_e.right.elts[0])
        except Exception:
            rep.undecided('G6', construct, f'entries `{lt}+{rt}` not recognised', m, data)
            n -= 1
            continue
        c, k, e = Poly._coerce(c), Poly._coerce(k), Poly._coerce(e)
        trace = c * k + e
        sq = c * c * k + e * e
        # scale^2 = num/den
        st = ast.unparse(sc).replace(' ', '')
        ok_scale = None
        if st.startswith('np.sqrt(') and isinstance(sc, ast.Call) and isinstance(sc.args[0], ast.BinOp) and isinstance(sc.args[0].op, ast.Div):
            num, den = Poly._coerce(se.ev(sc.args[0].left)), Poly._coerce(se.ev(sc.args[0].right))
            ok_scale = (num * sq - den * 2) == Poly.const(0) if hasattr(Poly, 'const') else None
        idx_ok = i0 is not None and ast.unparse(i0).replace(' ', '') == 'np.arange(i+1)' and ast.unparse(i1).replace(' ', '') == 'ind0'
        if not (trace == Poly.const(0)):
            rep.violation('G6', construct, f'entries `{lt}+{rt}` have trace {trace}, not 0: the diagonal element is not orthogonal to the identity element', m, data)
        elif ok_scale is False:
            rep.violation('G6', construct, f'scale `{st}`: scale^2 * sum of squares = ({ast.unparse(sc.args[0])}) * ({sq}) is not 2', m, data)
        elif ok_scale is None or not idx_ok:
            rep.undecided('G6', construct, f'scale `{st}` / positions not recognised', m, data)
            n -= 1
        else:
            rep.ok('G6', construct, f'l entries {c} and one entry {e}: traceless, scale^2*(sum of squares) = 2 for every l', m, data)
    rep.count('G6.arms', n)
    return n
