"""P1 (partial-transpose shape), I1 (monotone intersection of boundaries) and C1 (SDP constraint discipline) — C05/C06."""
import ast
from ..callgraph import resolve_callee
from ..tables import const_eval

RULE_P1 = ('P1: a literal permutation applied to a (batch..., d1..dn, d1..dn) reshape in a PPT routine is a genuine partial transpose: an '
           'involution made only of ket<->bra swaps i <-> i+n of equal-sized axes, identity elsewhere, and not the identity.')
RULE_I1 = ('I1: boundary intervals are combined monotonically: get_density_matrix_boundary derives the lower end from the largest and the '
           'upper end from the smallest shifted eigenvalue (ascending eigvalsh: [-1] / [0]) and returns (lower, upper); get_ppt_boundary '
           'intersects lower ends with maximum and upper ends with minimum and returns (lower, upper); callers that need the distance to '
           'the boundary along the ray take element [1].')
RULE_C1 = ('C1: in the SDP / LP builders the constraint list only grows after its first binding (+=, append, extend, or a rebinding that '
           'contains the old list) and contains the constraint kinds of the documented programme: PSD of every block variable, '
           'normalisation, the partial-transpose constraint under the use_ppt guard, the linking equality; for the CHA LP: lambda >= 0, '
           'sum(lambda) == 1 and the real and imaginary linking equalities.')

PT_SITES = {
    'numqi.entangle.ppt.get_ppt_boundary': 1,
    'numqi.entangle.ppt.is_ppt': 1,
    'numqi.entangle._misc.get_negativity': 1,
}


def p1(proj, rep):
    rep.rule('P1', RULE_P1)
    n = 0
    for q, want in PT_SITES.items():
        fi = proj.func(q)
        m = fi.module
        rep.touch(m)
        found = 0
        for c in ast.walk(fi.node):
            if not (isinstance(c, ast.Call) and isinstance(c.func, ast.Attribute) and c.func.attr == 'transpose'):
                continue
            inner = c.func.value
            if not (isinstance(inner, ast.Call) and isinstance(inner.func, ast.Attribute) and inner.func.attr == 'reshape'):
                continue
            perm = [a.value for a in c.args if isinstance(a, ast.Constant)]
            if len(perm) != len(c.args) or not perm:
                continue
            shp = [ast.unparse(a).replace(' ', '') for a in inner.args]
            if len(shp) != len(perm):
                continue
            found += 1
            n += 1
            # leading batch axes: those before the repeated block
            nb = len(shp) % 2
            body = shp[nb:]
            half = len(body) // 2
            construct = f'{q}'
            if body[:half] != body[half:] or nb > 1:
                rep.undecided('P1', construct, f'reshape{tuple(shp)} is not (batch?, d1..dn, d1..dn)', m, c)
                continue
            p = perm[nb:]
            ok = perm[:nb] == list(range(nb)) and sorted(perm) == list(range(len(perm)))
            swaps = []
            if ok:
                for i in range(2 * half):
                    j = p[i] - nb
                    if j == i:
                        continue
                    if p[j] - nb != i or abs(i - j) != half:
                        ok = False
                        break
                    if i < j:
                        swaps.append(i)
            if ok and len(swaps) == half and half > 0:
                rep.violation('P1', construct, f'transpose{tuple(perm)} swaps ket and bra of EVERY subsystem: a full transpose, whose spectrum equals '
                              f'that of the state - the PPT test / boundary degenerates to the PSD one', m, c)
            elif ok and swaps:
                rep.ok('P1', construct, f'transpose{tuple(perm)} on reshape({", ".join(shp)}): partial transpose of subsystem(s) {swaps}', m, c)
            elif ok:
                rep.violation('P1', construct, f'transpose{tuple(perm)} is the identity: no partial transpose is taken, the PPT test degenerates to '
                              f'the PSD test', m, c)
            else:
                rep.violation('P1', construct, f'transpose{tuple(perm)} on reshape({", ".join(shp)}) is not a partial transpose (not an involution of '
                              f'ket<->bra swaps of one subsystem): it mixes subsystems or is a full transpose', m, c)
        if found < want:
            rep.undecided('P1', q, f'{found} literal reshape+transpose sites found (expected {want})', m, fi.node, text=f'{q} sites')
    return n


def i1(proj, rep):
    rep.rule('I1', RULE_I1)
    n = 0
    # (a) get_density_matrix_boundary
    f = proj.func('numqi.entangle._misc.get_density_matrix_boundary')
    m = f.module
    rep.touch(m)
    ends = {}
    for s in ast.walk(f.node):
        if isinstance(s, ast.Assign) and isinstance(s.targets[0], ast.Name) and s.targets[0].id in ('beta_l', 'beta_u'):
            for x in ast.walk(s.value):
                if isinstance(x, ast.Subscript) and isinstance(x.slice, ast.Tuple) and len(x.slice.elts) == 2:
                    v = const_eval(x.slice.elts[1])
                    if v in (0, -1):
                        ends.setdefault(s.targets[0].id, (v, s))
    ret_ok = None
    for s in ast.walk(f.node):
        if isinstance(s, ast.Return) and isinstance(s.value, ast.Tuple):
            ret_ok = [ast.unparse(e) for e in s.value.elts] == ['beta_l', 'beta_u']
    n += 1
    if len(ends) == 2 and ret_ok is not None:
        if ends['beta_l'][0] == -1 and ends['beta_u'][0] == 0 and ret_ok:
            rep.ok('I1', f.qual, 'lower end from the largest eigenvalue [-1], upper end from the smallest [0]; returns (lower, upper)', m, ends['beta_l'][1])
        else:
            rep.violation('I1', f.qual, f'lower end uses eigenvalue index {ends["beta_l"][0]}, upper end {ends["beta_u"][0]}, returns '
                          f'{"(beta_l, beta_u)" if ret_ok else "swapped"}: with ascending eigvalsh the two ends are exchanged', m, ends['beta_l'][1])
    else:
        rep.undecided('I1', f.qual, 'end-point construction not recognised', m, f.node, text='dm boundary ends')
    # (b) get_ppt_boundary intersection
    f = proj.func('numqi.entangle.ppt.get_ppt_boundary')
    m = f.module
    rep.touch(m)
    tag = {}
    for s in ast.walk(f.node):
        if isinstance(s, ast.Assign) and isinstance(s.targets[0], ast.Tuple) and isinstance(s.value, ast.Call):
            r = resolve_callee(proj, m, s.value)
            if r.kind == 'func' and r.qual.endswith('get_density_matrix_boundary') and len(s.targets[0].elts) == 2:
                a, b = s.targets[0].elts
                if isinstance(a, ast.Name) and isinstance(b, ast.Name):
                    tag[a.id] = 'L'
                    tag[b.id] = 'U'
    for s in ast.walk(f.node):
        if isinstance(s, ast.Assign) and isinstance(s.targets[0], ast.Name) and isinstance(s.value, ast.Call) and len(s.value.args) == 2:
            r = resolve_callee(proj, m, s.value)
            if r.kind == 'external' and r.qual in ('numpy.maximum', 'numpy.minimum'):
                names = [a.id for a in s.value.args if isinstance(a, ast.Name)]
                kinds = {tag.get(x) for x in names}
                n += 1
                if len(names) == 2 and kinds == {'L'}:
                    if r.qual == 'numpy.maximum':
                        rep.ok('I1', f.qual, f'lower ends intersected with maximum: {ast.unparse(s)}', m, s)
                    else:
                        rep.violation('I1', f.qual, f'`{ast.unparse(s)}` combines two lower ends with minimum: the result is the union, not the '
                                      f'intersection, so beta_PPT can exceed beta_DM', m, s)
                    tag[s.targets[0].id] = 'L'
                elif len(names) == 2 and kinds == {'U'}:
                    if r.qual == 'numpy.minimum':
                        rep.ok('I1', f.qual, f'upper ends intersected with minimum: {ast.unparse(s)}', m, s)
                    else:
                        rep.violation('I1', f.qual, f'`{ast.unparse(s)}` combines two upper ends with maximum: the result is the union, not the '
                                      f'intersection, so beta_PPT can exceed beta_DM', m, s)
                    tag[s.targets[0].id] = 'U'
                else:
                    rep.violation('I1', f.qual, f'`{ast.unparse(s)}` mixes a lower end with an upper end ({dict((x, tag.get(x)) for x in names)})', m, s)
    for s in ast.walk(f.node):
        if isinstance(s, ast.Return) and isinstance(s.value, ast.Tuple) and len(s.value.elts) == 2:
            ks = [tag.get(e.id) if isinstance(e, ast.Name) else None for e in s.value.elts]
            n += 1
            if ks == ['L', 'U']:
                rep.ok('I1', f.qual, 'returns (lower, upper)', m, s)
            elif None in ks:
                rep.undecided('I1', f.qual, 'returned names not tagged', m, s)
            else:
                rep.violation('I1', f.qual, f'returns ends in order {ks}', m, s)
    # (c) callers that take one end
    ncall = 0
    for fi in proj.iter_functions(['numqi.entangle.cha', 'numqi.entangle.pureb', 'numqi.entangle.ppt', 'numqi.entangle.pureb_quantum',
                                   'numqi.entangle._misc', 'numqi.entangle.symext']):
        for x in ast.walk(fi.node):
            if isinstance(x, ast.Subscript) and isinstance(x.value, ast.Call) and isinstance(x.slice, ast.Constant):
                r = resolve_callee(proj, fi.module, x.value)
                if r.kind == 'func' and r.qual.rsplit('.', 1)[1] in ('get_density_matrix_boundary', 'get_ppt_boundary'):
                    ncall += 1
                    n += 1
                    if x.slice.value == 1:
                        rep.ok('I1', fi.qual, f'`{ast.unparse(x)[:60]}` takes the upper end', fi.module, x)
                    else:
                        rep.violation('I1', fi.qual, f'`{ast.unparse(x)[:60]}` takes element {x.slice.value} (the negative-direction end) where the '
                                      f'distance along the ray is needed', fi.module, x)
    rep.count('I1.obligations', n)
    return n


BUILDERS = {
    'numqi.entangle.symext._ABk_symmetric_extension_setup': {'psd': 1, 'trace1': 1, 'pt_guarded': 1, 'link': 1},
    'numqi.entangle.ppt.get_ppt_numerical_range': {'psd': 1, 'trace1': 1, 'pt': 1, 'link': 1},
    'numqi.entangle.cha.CHABoundaryBagging.solve': {'ge0': 1, 'sum1': 1, 'link': 2},
    'numqi.entangle.symext.is_ABk_symmetric_ext_naive': {'psd': 1, 'trace1': 1, 'link': 1},
}


def _kind(e):
    t = ast.unparse(e).replace(' ', '')
    kinds = set()
    if isinstance(e, ast.BinOp) and isinstance(e.op, ast.RShift) and isinstance(e.right, ast.Constant) and e.right.value == 0:
        kinds.add('pt' if 'partial_transpose' in t else 'psd')
    if isinstance(e, ast.Compare) and len(e.ops) == 1:
        if isinstance(e.ops[0], ast.Eq):
            if isinstance(e.comparators[0], ast.Constant) and e.comparators[0].value == 1:
                kinds.add('sum1' if 'cvxpy.sum(' in t and 'trace' not in t else 'trace1')
            else:
                kinds.add('link')
        if isinstance(e.ops[0], ast.GtE) and isinstance(e.comparators[0], ast.Constant) and e.comparators[0].value == 0:
            kinds.add('ge0')
    return kinds


def c1(proj, rep):
    rep.rule('C1', RULE_C1)
    n = 0
    for q, need in BUILDERS.items():
        fi = proj.func(q)
        m = fi.module
        rep.touch(m)
        # the constraint list name: first list-valued local whose elements are constraint expressions
        cname = None
        first = None
        for s in fi.node.body if True else []:
            pass
        for s in ast.walk(fi.node):
            if isinstance(s, ast.Assign) and len(s.targets) == 1 and isinstance(s.targets[0], ast.Name) and isinstance(s.value, (ast.List, ast.ListComp)):
                elts = s.value.elts if isinstance(s.value, ast.List) else [s.value.elt]
                if elts and any(_kind(e) for e in elts):
                    if cname is None or s.lineno < first.lineno:
                        cname, first = s.targets[0].id, s
        if cname is None:
            rep.undecided('C1', q, 'constraint list not found', m, fi.node, text=f'{q} list')
            continue
        kinds = {}

        def add(e, guarded):
            for k in _kind(e):
                if k == 'pt' and guarded:
                    kinds['pt_guarded'] = kinds.get('pt_guarded', 0) + 1
                kinds[k] = kinds.get(k, 0) + 1
        bad = None
        for s in ast.walk(fi.node):
            guarded = False
            p = getattr(s, '_parent', None)
            while p is not None and p is not fi.node:
                if isinstance(p, ast.If) and 'use_ppt' in ast.unparse(p.test):
                    guarded = True
                p = getattr(p, '_parent', None)
            if isinstance(s, ast.Assign) and len(s.targets) == 1 and isinstance(s.targets[0], ast.Name) and s.targets[0].id == cname:
                v = s.value
                if s is not first:
                    uses_old = any(isinstance(x, ast.Name) and x.id == cname for x in ast.walk(v))
                    if isinstance(v, ast.UnaryOp) and isinstance(v.op, (ast.UAdd, ast.USub)) and isinstance(v.operand, (ast.List, ast.ListComp)):
                        bad = (s, f'`{cname} = {ast.unparse(v)[:50]}` applies unary + to a list: TypeError whenever this branch runs')
                    elif not uses_old:
                        bad = (s, f'`{ast.unparse(s)[:70]}` rebinds the constraint list and drops the constraints collected before it')
                for e in (v.elts if isinstance(v, ast.List) else [v.elt] if isinstance(v, ast.ListComp) else []):
                    add(e, guarded)
            elif isinstance(s, ast.AugAssign) and isinstance(s.target, ast.Name) and s.target.id == cname:
                if not isinstance(s.op, ast.Add):
                    bad = (s, f'constraint list updated with {type(s.op).__name__}')
                v = s.value
                for e in (v.elts if isinstance(v, ast.List) else [v.elt] if isinstance(v, ast.ListComp) else []):
                    add(e, guarded)
            elif isinstance(s, ast.Call) and isinstance(s.func, ast.Attribute) and s.func.attr in ('append', 'extend') \
                    and isinstance(s.func.value, ast.Name) and s.func.value.id == cname:
                for a in s.args:
                    for e in (a.elts if isinstance(a, ast.List) else [a]):
                        add(e, guarded)
        n += 1
        if bad:
            rep.violation('C1', q, bad[1], m, bad[0])
            continue
        missing = [k for k, c in need.items() if kinds.get(k, 0) < c]
        if missing:
            rep.violation('C1', q, f'the programme built here lacks constraint kind(s) {missing} (found {kinds}): the feasible set is larger than '
                          f'documented, so the boundary / test is not the one named', m, first)
        else:
            rep.ok('C1', q, f'constraint list `{cname}` only grows; kinds {kinds}', m, first)
    rep.count('C1.builders', n)
    return n


# ------------------------------------------------------------------------------------------------ C2
RULE_C2 = ('C2: in CHABoundaryBagging.solve every boundary value that enters the history (and the final weights read from the LP variable) comes from a '
           '`self._cvxpy_solve()` executed AFTER the last re-ordering / replacement of the product states: values returned by helpers that re-order '
           'ketA / ketB after their own solve are stale (the LP variable keeps the pre-sort order, so the reported weights belong to other states).')


def c2(proj, rep):
    rep.rule('C2', RULE_C2)
    ci = proj.cls('numqi.entangle.cha.CHABoundaryBagging')
    m = ci.module
    rep.touch(m)
    f = ci.methods.get('solve')
    if f is None:
        rep.undecided('C2', ci.qual, 'solve() not found', m, ci.node, text='solve')
        return 0
    # helper methods that assign self.ketA / self.ketB
    reorder = set()
    for name, fi in ci.methods.items():
        if name in ('__init__', 'solve'):
            continue
        for s in ast.walk(fi.node):
            if isinstance(s, ast.Assign) and any(isinstance(t, ast.Attribute) and isinstance(t.value, ast.Name) and t.value.id == 'self' and t.attr in ('ketA', 'ketB')
                                                 for t in s.targets):
                reorder.add(name)
    n = 0
    for s in ast.walk(f.node):
        vals = []
        if isinstance(s, ast.Assign) and isinstance(s.targets[0], ast.Name) and s.targets[0].id == 'beta_history' and isinstance(s.value, ast.List):
            vals = list(s.value.elts)
        elif isinstance(s, ast.Call) and isinstance(s.func, ast.Attribute) and s.func.attr == 'append' and isinstance(s.func.value, ast.Name) \
                and s.func.value.id == 'beta_history' and s.args:
            vals = [s.args[0]]
        for v in vals:
            n += 1
            t = ast.unparse(v).replace(' ', '')
            src = v
            if isinstance(v, ast.Name):
                # resolve one local definition
                d = [x.value for x in ast.walk(f.node) if isinstance(x, ast.Assign) and isinstance(x.targets[0], ast.Name) and x.targets[0].id == v.id]
                if len(d) >= 1:
                    src = d[-1]
            called = [c.func.attr for c in ast.walk(src) if isinstance(c, ast.Call) and isinstance(c.func, ast.Attribute) and isinstance(c.func.value, ast.Name)
                      and c.func.value.id == 'self']
            if '_cvxpy_solve' in called and not (set(called) & reorder):
                rep.ok('C2', f'{ci.qual}.solve', f'history entry `{t[:40]}` comes from self._cvxpy_solve()', m, v)
            elif set(called) & reorder:
                h = sorted(set(called) & reorder)[0]
                rep.violation('C2', f'{ci.qual}.solve', f'history entry `{t[:50]}` is the return value of `{h}`, which re-orders ketA/ketB after its own solve: the LP '
                              f'variable (weights) is in the pre-sort order, so with maxiter=0 the returned weights belong to different product states', m, v)
            else:
                rep.undecided('C2', f'{ci.qual}.solve', f'source of history entry `{t[:40]}` not recognised', m, v)
                n -= 1
    rep.count('C2.history_entries', n)
    return n
