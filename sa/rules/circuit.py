"""D — gate registry of numqi.sim.Circuit and dispatch loops (C03, C04); Q1-Q3 — stabilizer parser, error enumeration and
code-string literals (C19)."""
import ast
import numpy as np
from ..project import dotted_parts, bind_call, AnalysisError
from ..callgraph import resolve_callee
from ..gateval import GateEval, NotLiteral, CANON, same, canon_name
from ..tables import const_eval

CIRC = 'numqi.sim.circuit.Circuit'
CMOD = 'numqi.sim.circuit'

RULE_D2 = ('D2: every named gate attribute of Circuit binds the operator its name denotes: fixed gates X,Y,Z,H,S,T,Swap evaluate '
           '(literal folding of numqi.gate constants) to the canonical matrix of that name with num_index = log2(size); '
           'cnot/cx/cy/cz/toffoli are control gates of X/Y/Z with 1/1/1/1/2 controls and one target; rx/ry/rz/u3/rzz and '
           'crx/cry/crz/cu3 bind the numqi.gate function of that name with num_parameter = number of required positional '
           'parameters of that function and num_index = 1 (2 for rzz); the recorded label equals the attribute name (or the '
           'attribute it aliases).')
RULE_Q1 = ('Q1: in parse_simple_pauli both arms send each letter X/Y/Z to the same operator: the matrix arm\'s table value and '
           'the matrix of the *fixed* gate that the circuit arm appends must both evaluate to the canonical Pauli of that '
           'letter (a parametrised gate with default angle is the identity).')
RULE_Q2 = ('Q2: make_error_list enumerates each Pauli error of weight w in range(1, distance) exactly once: qubit subsets by '
           'itertools.combinations(range(num_qubit), r=w) x operator words by itertools.product(op_list, repeat=w) with the '
           'default op_list = the three distinct non-identity Paulis.')
RULE_Q3 = ('Q3: in every generate_code* the name literal ((n,K,d)) and the listed stabilizer strings agree: each string has '
           'length n, uses only IXYZ, is not the identity, strings are pairwise distinct, and there are at most n-log2(K).')

FIXED_EXPECT = {'X': ('X', 1), 'Y': ('Y', 1), 'Z': ('Z', 1), 'H': ('H', 1), 'S': ('S', 1), 'T': ('T', 1), 'Swap': ('Swap', 2)}
CONTROL_EXPECT = {'cnot': ('X', 1, 1), 'cx': ('X', 1, 1), 'cy': ('Y', 1, 1), 'cz': ('Z', 1, 1), 'toffoli': ('X', 2, 1)}
PARAM_EXPECT = {'rx': ('numqi.gate._internal.rx', 1), 'ry': ('numqi.gate._internal.ry', 1), 'rz': ('numqi.gate._internal.rz', 1),
                'u3': ('numqi.gate._internal.u3', 1), 'rzz': ('numqi.gate._internal.rzz', 2)}
CPARAM_EXPECT = {'crx': 'numqi.gate._internal.rx', 'cry': 'numqi.gate._internal.ry', 'crz': 'numqi.gate._internal.rz',
                 'cu3': 'numqi.gate._internal.u3'}


def factory_kind(proj, fac):
    """Classify a gate factory by the Gate(...) it constructs: ('unitary'|'control'|'kraus', parametrised?)."""
    kind = None
    param = False
    for n in ast.walk(fac.node):
        if isinstance(n, ast.Call):
            r = resolve_callee(proj, fac.module, n)
            if r.kind == 'class' and r.qual.endswith(('._internal.Gate', '._internal.ParameterGate')):
                if n.args and isinstance(n.args[0], ast.Constant):
                    kind = n.args[0].value
                param = r.qual.endswith('ParameterGate')
    return kind, param


def registry(proj):
    """attr -> dict(kind, param, label, args(list of ast), node, alias_of)"""
    ci = proj.cls(CIRC)
    m = ci.module
    reg = {}
    for attr, val in ci.attr_assigns.items():
        if isinstance(val, ast.Call):
            r = resolve_callee(proj, m, val)
            if r.kind != 'func':
                continue
            kind, param = factory_kind(proj, r.node)
            if kind is None:
                continue
            b = bind_call(val, r.node, skip_self=False)
            reg[attr] = dict(kind=kind, param=param, factory=r.qual, args=b.args, node=val, alias_of=None,
                             fparams=r.node.params)
    for attr, val in ci.attr_assigns.items():
        if isinstance(val, ast.Name) and val.id in reg:
            reg[attr] = dict(reg[val.id], alias_of=val.id)
    return reg, ci


def _lit(e):
    return e.value if isinstance(e, ast.Constant) else None


def _required_positional(fi):
    return [p for p in fi.params if p not in fi.defaults]


def d2(proj, rep):
    rep.rule('D2', RULE_D2)
    reg, ci = registry(proj)
    m = ci.module
    rep.touch(m)
    ge = GateEval(proj)
    n = 0
    for attr, e in sorted(reg.items()):
        n += 1
        construct = f'{CIRC}.{attr}'
        a = e['args']
        fp = e['fparams']
        label = _lit(a.get(fp[0])) if fp else None
        want_label = e['alias_of'] or attr
        if label != want_label:
            rep.violation('D2', construct, f'records label {label!r}, expected {want_label!r} (labels group trainable parameters in '
                          f'CircuitTorchWrapper)', m, e['node'], text=f'{attr} label')
            continue
        if e['kind'] == 'unitary' and not e['param']:
            exp = FIXED_EXPECT.get(attr)
            if exp is None:
                rep.undecided('D2', construct, 'fixed gate with no canonical operator in the rule table', m, e['node'], text=f'{attr} fixed')
                continue
            try:
                v = ge.value(m, a[fp[1]])
            except NotLiteral as ex:
                rep.undecided('D2', construct, f'matrix expression not literal: {ex}', m, e['node'], text=f'{attr} fixed')
                continue
            ni = _lit(a.get(fp[2]))
            if not same(v, CANON[exp[0]]):
                rep.violation('D2', construct, f'`{ast.unparse(a[fp[1]])}` evaluates to {canon_name(v) or "an unnamed matrix"}, not to {exp[0]}',
                              m, e['node'], text=f'{attr} fixed')
            elif ni != exp[1] or 2 ** ni != v.shape[0]:
                rep.violation('D2', construct, f'num_index={ni} but the operator acts on {exp[1]} qubit(s)', m, e['node'], text=f'{attr} fixed')
            else:
                rep.ok('D2', construct, f'fixed {exp[0]} on {ni} qubit(s)', m, e['node'], text=f'{attr} fixed')
        elif e['kind'] == 'control' and not e['param']:
            exp = CONTROL_EXPECT.get(attr)
            if exp is None:
                rep.undecided('D2', construct, 'control gate with no entry in the rule table', m, e['node'], text=f'{attr} control')
                continue
            try:
                v = ge.value(m, a[fp[1]])
            except NotLiteral as ex:
                rep.undecided('D2', construct, f'matrix expression not literal: {ex}', m, e['node'], text=f'{attr} control')
                continue
            nc, nt = _lit(a.get(fp[2])), _lit(a.get(fp[3]))
            if not same(v, CANON[exp[0]]):
                rep.violation('D2', construct, f'controlled operator evaluates to {canon_name(v) or "an unnamed matrix"}, not to {exp[0]}',
                              m, e['node'], text=f'{attr} control')
            elif (nc, nt) != (exp[1], exp[2]):
                rep.violation('D2', construct, f'(num_control,num_target)=({nc},{nt}), expected ({exp[1]},{exp[2]})', m, e['node'], text=f'{attr} control')
            else:
                rep.ok('D2', construct, f'controlled-{exp[0]} with {nc} control(s)', m, e['node'], text=f'{attr} control')
        elif e['param']:
            if e['kind'] == 'unitary':
                exp = PARAM_EXPECT.get(attr)
                want_fn, want_ni = exp if exp else (None, None)
            else:
                want_fn, want_ni = CPARAM_EXPECT.get(attr), None
            if want_fn is None:
                rep.undecided('D2', construct, 'parametrised gate with no entry in the rule table', m, e['node'], text=f'{attr} param')
                continue
            r = proj.resolve_expr(m, a[fp[1]])
            if r.kind != 'func':
                rep.undecided('D2', construct, f'gate function `{ast.unparse(a[fp[1]])}` unresolved', m, e['node'], text=f'{attr} param')
                continue
            npar = _lit(a.get('num_parameter'))
            ni = _lit(a.get('num_index')) if 'num_index' in a else None
            req = len(_required_positional(r.node))
            if r.qual != want_fn:
                rep.violation('D2', construct, f'binds gate function {r.qual}, expected {want_fn}', m, e['node'], text=f'{attr} param')
            elif npar != req:
                rep.violation('D2', construct, f'num_parameter={npar} but {r.qual} takes {req} angle(s)', m, e['node'], text=f'{attr} param')
            elif want_ni is not None and ni != want_ni:
                rep.violation('D2', construct, f'num_index={ni}, expected {want_ni}', m, e['node'], text=f'{attr} param')
            else:
                rep.ok('D2', construct, f'{"controlled " if e["kind"] == "control" else ""}{r.qual} with {npar} parameter(s)', m, e['node'], text=f'{attr} param')
        else:
            rep.ok('D2', construct, f'{e["kind"]} gate (no operator claim)', m, e['node'], text=f'{attr} other')
    rep.count('D2.registry_entries', n)
    return n


# ------------------------------------------------------------------------------------------------ Q1
def q1(proj, rep):
    rep.rule('Q1', RULE_Q1)
    f = proj.func('numqi.qec._qecc.parse_simple_pauli')
    m = f.module
    rep.touch(m)
    reg, ci = registry(proj)
    ge = GateEval(proj)
    n = 0
    # ---- circuit arm: `if x=='X': ret.<meth>(y)` chains, or table-driven getattr
    letter_calls = {}
    for node in ast.walk(f.node):
        if isinstance(node, ast.If) and isinstance(node.test, ast.Compare) and len(node.test.ops) == 1 \
                and isinstance(node.test.ops[0], ast.Eq) and isinstance(node.test.comparators[0], ast.Constant) \
                and node.test.comparators[0].value in ('X', 'Y', 'Z', 'I'):
            letter = node.test.comparators[0].value
            for st in node.body:
                for c in ast.walk(st):
                    if isinstance(c, ast.Call) and isinstance(c.func, ast.Attribute):
                        letter_calls.setdefault(letter, []).append(c)
    # ---- matrix arm: dict letter -> gate expr
    mtab = None
    for node in ast.walk(f.node):
        if isinstance(node, ast.Dict) and node.keys and all(isinstance(k, ast.Constant) and k.value in ('X', 'Y', 'Z', 'I') for k in node.keys):
            mtab = {k.value: v for k, v in zip(node.keys, node.values)}
    if not letter_calls or mtab is None:
        rep.undecided('Q1', f.qual, 'parser arms not in the recognised form (if-chain of letter tests + literal letter->matrix dict)',
                      m, f.node, text='arms')
        return 0
    for letter in ('X', 'Y', 'Z'):
        n += 1
        construct = f'{f.qual}[{letter}]'
        exp = CANON[letter]
        # matrix arm
        if letter not in mtab:
            rep.violation('Q1', construct, f'matrix arm has no entry for {letter!r}', m, f.node, text=f'{letter} matrix arm')
        else:
            try:
                v = ge.value(m, mtab[letter])
                if same(v, exp):
                    rep.ok('Q1', construct, f'matrix arm: {ast.unparse(mtab[letter])} = Pauli {letter}', m, mtab[letter])
                else:
                    rep.violation('Q1', construct, f'matrix arm maps {letter!r} to {canon_name(v)}', m, mtab[letter])
            except NotLiteral as ex:
                rep.undecided('Q1', construct, f'matrix arm value not literal: {ex}', m, mtab[letter])
        # circuit arm
        calls = letter_calls.get(letter, [])
        if len(calls) != 1:
            rep.violation('Q1', construct, f'circuit arm appends {len(calls)} gates for letter {letter!r} (expected exactly one)', m, f.node,
                          text=f'{letter} circuit arm')
            continue
        c = calls[0]
        meth = c.func.attr
        e = reg.get(meth)
        if e is not None:
            if e['param']:
                rep.violation('Q1', construct, f'circuit arm appends the parametrised gate `{meth}` with its default angle (0 -> identity) '
                              f'instead of the fixed Pauli {letter}', m, c)
                continue
            try:
                v = ge.value(ci.module, e['args'][e['fparams'][1]])
            except NotLiteral as ex:
                rep.undecided('Q1', construct, f'circuit arm gate matrix not literal: {ex}', m, c)
                continue
            if e['kind'] == 'unitary' and same(v, exp):
                rep.ok('Q1', construct, f'circuit arm: Circuit.{meth} is the fixed Pauli {letter}', m, c)
            else:
                rep.violation('Q1', construct, f'circuit arm appends Circuit.{meth} = {e["kind"]} {canon_name(v)}, not Pauli {letter}', m, c)
        elif meth == 'single_qubit_gate' and c.args:
            try:
                v = ge.value(m, c.args[0])
                if same(v, exp):
                    rep.ok('Q1', construct, f'circuit arm: single_qubit_gate({ast.unparse(c.args[0])}) = Pauli {letter}', m, c)
                else:
                    rep.violation('Q1', construct, f'circuit arm applies {canon_name(v)} for letter {letter!r}', m, c)
            except NotLiteral as ex:
                rep.undecided('Q1', construct, f'circuit arm matrix not literal: {ex}', m, c)
        else:
            rep.undecided('Q1', construct, f'circuit arm calls `{meth}`, not a registry gate', m, c)
    return n


# ------------------------------------------------------------------------------------------------ Q2
def q2(proj, rep):
    rep.rule('Q2', RULE_Q2)
    f = proj.func('numqi.qec._internal.make_error_list')
    m = f.module
    rep.touch(m)
    fors = [n for n in f.node.body if isinstance(n, ast.For)]
    cand = None
    for lp in fors:
        if isinstance(lp.iter, ast.Call) and isinstance(lp.iter.func, ast.Name) and lp.iter.func.id == 'range':
            cand = lp
            break
    if cand is None:
        rep.undecided('Q2', f.qual, 'outer weight loop not found', m, f.node, text='weight loop')
        return 0
    n = 0
    wvar = cand.target.id if isinstance(cand.target, ast.Name) else None
    ra = cand.iter.args
    ok_range = len(ra) == 2 and isinstance(ra[0], ast.Constant) and ra[0].value == 1 and isinstance(ra[1], ast.Name) and ra[1].id == 'distance'
    n += 1
    if ok_range:
        rep.ok('Q2', f.qual, 'weights range(1, distance)', m, cand.iter)
    else:
        rep.violation('Q2', f.qual, f'weight loop is `{ast.unparse(cand.iter)}`, not range(1, distance): errors of weight 0 or >= distance '
                      f'are included / weight distance-1 is missing', m, cand.iter)
    inner = [x for x in ast.walk(cand) if isinstance(x, ast.For) and x is not cand]
    seen = {}
    for lp in inner:
        if isinstance(lp.iter, ast.Call):
            r = resolve_callee(proj, m, lp.iter)
            if r.kind == 'external' and r.qual.startswith('itertools.'):
                seen[r.qual.split('.')[1]] = lp.iter
    n += 1
    c = seen.get('combinations')
    if c is None:
        bad = [k for k in seen if k in ('permutations', 'combinations_with_replacement')]
        rep.violation('Q2', f.qual, f'qubit subsets are not enumerated by itertools.combinations (found {sorted(seen)}): supports repeat '
                      f'or are missed', m, cand) if bad else rep.undecided('Q2', f.qual, 'subset enumeration idiom unknown', m, cand, text='subsets')
    else:
        rr = None
        for k in c.keywords:
            if k.arg == 'r':
                rr = k.value
        if rr is None and len(c.args) >= 2:
            rr = c.args[1]
        a0 = c.args[0] if c.args else None
        ok0 = isinstance(a0, ast.Call) and isinstance(a0.func, ast.Name) and a0.func.id == 'range' and len(a0.args) == 1 \
            and isinstance(a0.args[0], ast.Name) and a0.args[0].id == 'num_qubit'
        okr = isinstance(rr, ast.Name) and rr.id == wvar
        if ok0 and okr:
            rep.ok('Q2', f.qual, f'subsets: combinations(range(num_qubit), r={wvar})', m, c)
        else:
            rep.violation('Q2', f.qual, f'subsets enumerated by `{ast.unparse(c)}`: not every weight-{wvar} support exactly once', m, c)
    n += 1
    p = seen.get('product')
    if p is None and [k for k in seen if k in ('combinations_with_replacement', 'permutations')]:
        k = [k for k in seen if k in ('combinations_with_replacement', 'permutations')][0]
        rep.violation('Q2', f.qual, f'operator words are enumerated by itertools.{k}: only ordered / repetition-free label sequences are produced, so e.g. Y_i X_j (i<j) is '
                      f'never generated: not every Pauli of a given weight appears', m, seen[k])
    elif p is None:
        rep.undecided('Q2', f.qual, 'operator-word enumeration idiom unknown', m, cand, text='words')
    else:
        rp = None
        for k in p.keywords:
            if k.arg == 'repeat':
                rp = k.value
        if isinstance(rp, ast.Name) and rp.id == wvar and len(p.args) == 1 and isinstance(p.args[0], ast.Name):
            rep.ok('Q2', f.qual, f'words: product({p.args[0].id}, repeat={wvar})', m, p)
        else:
            rep.violation('Q2', f.qual, f'operator words enumerated by `{ast.unparse(p)}`: word length differs from the support size', m, p)
    # default op_list = three distinct non-identity Paulis
    n += 1
    ge = GateEval(proj)
    dflt = None
    for st in ast.walk(f.node):
        if isinstance(st, ast.Assign) and isinstance(st.targets[0], ast.Name) and st.targets[0].id == 'op_list' and isinstance(st.value, ast.List):
            dflt = st.value
    if dflt is None:
        rep.undecided('Q2', f.qual, 'default op_list literal not found', m, f.node, text='op_list')
    else:
        names = []
        for e in dflt.elts:
            try:
                names.append(canon_name(ge.value(m, e)))
            except NotLiteral:
                names.append(None)
        if sorted(x or '?' for x in names) == ['X', 'Y', 'Z']:
            rep.ok('Q2', f.qual, 'default op_list = {X,Y,Z}', m, dflt)
        else:
            rep.violation('Q2', f.qual, f'default op_list evaluates to {names}: not the three distinct non-identity Paulis', m, dflt)
    return n


# ------------------------------------------------------------------------------------------------ Q3
def code_generators(proj):
    m = proj.mod('numqi.qec._qecc')
    return [fi for q, fi in sorted(proj.funcs.items()) if fi.module is m and fi.name.startswith('generate_code')]


def parse_name(s):
    if not (s.startswith('((') and s.endswith('))')):
        return None
    t = s[2:-2].split(',', 2)
    try:
        n, K = int(t[0]), int(t[1])
        d = int(t[2].split('=', 1)[1]) if '=' in t[2] else int(t[2])
    except Exception:
        return None
    return n, K, d


def code_literals(fi):
    """(name literal node, n, K, d, list of (string, node))"""
    name = None
    strs = []
    for st in ast.walk(fi.node):
        if isinstance(st, ast.Assign) and isinstance(st.targets[0], ast.Name):
            if st.targets[0].id == 'name' and isinstance(st.value, ast.Constant) and isinstance(st.value.value, str):
                name = st.value
            if isinstance(st.value, ast.List) and st.value.elts and all(isinstance(e, ast.Constant) and isinstance(e.value, str) for e in st.value.elts):
                strs = [(e.value, e) for e in st.value.elts]
    return name, strs


def q3(proj, rep):
    rep.rule('Q3', RULE_Q3)
    gens = code_generators(proj)
    n = 0
    for fi in gens:
        m = fi.module
        rep.touch(m)
        name, strs = code_literals(fi)
        if name is None or not strs:
            rep.undecided('Q3', fi.qual, 'name literal or stabilizer string list not found', m, fi.node, text='literals')
            continue
        nk = parse_name(name.value)
        if nk is None:
            rep.violation('Q3', fi.qual, f'name literal {name.value!r} is not of the form ((n,K,d))', m, name)
            continue
        nq, K, d = nk
        n += 1
        bad = None
        vals = [s for s, _ in strs]
        for s, node in strs:
            if len(s) != nq:
                bad = (node, f'string {s!r} has length {len(s)}, code has n={nq} qubits')
            elif not set(s) <= set('IXYZ'):
                bad = (node, f'string {s!r} contains letters outside IXYZ')
            elif set(s) == {'I'}:
                bad = (node, f'string {s!r} is the identity')
        if bad is None and len(set(vals)) != len(vals):
            bad = (strs[0][1], 'stabilizer strings are not pairwise distinct')
        kbits = int(round(np.log2(K))) if K > 0 else 0
        if bad is None and 2 ** kbits == K and len(vals) > nq - kbits:
            bad = (strs[0][1], f'{len(vals)} generators listed but an ((n={nq},K={K})) stabilizer code has at most {nq - kbits}')
        if bad:
            rep.violation('Q3', fi.qual, bad[1], m, bad[0])
        else:
            rep.ok('Q3', fi.qual, f'{name.value}: {len(vals)} well-formed strings of length {nq}', m, name)
    rep.count('Q3.codes', n)
    return n


# ------------------------------------------------------------------------------------------------ U1
RULE_U1 = ('U1: Circuit.to_unitary builds U from the images of the basis vectors: if image i is stored as *row* i '
           '(`ret[i] = apply_state(e_i)`) the result is transposed exactly once before it is returned; if it is stored as '
           'column i (`ret[:, i] = ...`) it is not transposed.  (U[:, i] = U e_i.)')


def u1(proj, rep):
    rep.rule('U1', RULE_U1)
    f = proj.func(f'{CIRC}.to_unitary')
    m = f.module
    rep.touch(m)
    store = None
    for s in ast.walk(f.node):
        if isinstance(s, ast.Assign) and isinstance(s.targets[0], ast.Subscript) and isinstance(s.value, ast.Call) \
                and isinstance(s.value.func, ast.Attribute) and s.value.func.attr == 'apply_state':
            sl = s.targets[0].slice
            if isinstance(sl, ast.Tuple) and len(sl.elts) == 2 and isinstance(sl.elts[0], ast.Slice):
                store = ('col', s)
            elif isinstance(sl, (ast.Name, ast.Constant)):
                store = ('row', s)
    if store is None:
        rep.undecided('U1', f.qual, 'basis-image store not found', m, f.node, text='to_unitary store')
        return 0
    base = store[1].targets[0].value.id if isinstance(store[1].targets[0].value, ast.Name) else None
    # count transposes applied to `base` on the way to the return
    ntr = 0
    for s in ast.walk(f.node):
        if isinstance(s, ast.Assign) and isinstance(s.targets[0], ast.Name) and s.targets[0].id == base:
            for x in ast.walk(s.value):
                if isinstance(x, ast.Attribute) and x.attr == 'T' and isinstance(x.value, ast.Name) and x.value.id == base:
                    ntr += 1
                if isinstance(x, ast.Call) and isinstance(x.func, ast.Attribute) and x.func.attr == 'transpose':
                    ntr += 1
        if isinstance(s, ast.Return) and s.value is not None:
            for x in ast.walk(s.value):
                if isinstance(x, ast.Attribute) and x.attr == 'T':
                    ntr += 1
    # the buffer that receives the images is complex whatever the gates look like (custom gates act through forward() and have no array to inspect)
    nob = 1
    bdef = next((x for x in ast.walk(f.node) if isinstance(x, ast.Assign) and isinstance(x.targets[0], ast.Name) and x.targets[0].id == base and isinstance(x.value, ast.Call)
                 and ast.unparse(x.value.func).split('.')[-1] in ('eye', 'zeros', 'empty', 'identity')), None)
    if bdef is not None:
        dt = next((k.value for k in bdef.value.keywords if k.arg == 'dtype'), None)
        nob += 1
        if dt is not None and ast.unparse(dt).split('.')[-1] in ('complex128', 'complex64', 'complex', 'cdouble'):
            rep.ok('U1', f.qual, f'image buffer `{ast.unparse(bdef)[:50]}` is complex', m, bdef)
        else:
            rep.violation('U1', f.qual, f'`{ast.unparse(bdef)[:80]}`: the dtype of the image buffer is not a complex constant; the images returned by apply_state are complex '
                          f'whenever any gate (including a custom gate without `.array`) is, and their imaginary part is dropped on the store', m, bdef)
    want = 1 if store[0] == 'row' else 0
    if ntr % 2 == want:
        rep.ok('U1', f.qual, f'images stored as {store[0]}s, {ntr} transpose(s) before return', m, store[1])
    else:
        rep.violation('U1', f.qual, f'images of the basis vectors are stored as {store[0]}s but the result is transposed {ntr} time(s): '
                      f'to_unitary returns U^T (invisible for symmetric circuits)', m, store[1])
    return nob


# ------------------------------------------------------------------------------------------------ D4
RULE_D4 = ('D4: MeasureGate.forward consumes the incoming state with the gate\'s own index and generator in ONE call to '
           'measure_quantum_vector(q0 <- the forward argument, index <- self.index, seed <- self.np_rng) and stores '
           'bitstr / probability from positions 0 / 1 of that very call while returning position 2 (the collapsed state); '
           'Circuit.measure records the gate with the gate object\'s own index.')


def d4(proj, rep):
    rep.rule('D4', RULE_D4)
    ci = proj.cls('numqi.sim.circuit.MeasureGate')
    m = ci.module
    rep.touch(m)
    fw = ci.methods.get('forward')
    if fw is None:
        rep.violation('D4', ci.qual, 'MeasureGate has no forward()', m, ci.node, text='MeasureGate.forward')
        return 1
    calls = []
    for c in ast.walk(fw.node):
        if isinstance(c, ast.Call):
            r = resolve_callee(proj, m, c)
            if r.kind == 'func' and r.qual == 'numqi.sim.state.measure_quantum_vector':
                calls.append((c, r.node))
    n = 1
    if len(calls) != 1:
        rep.violation('D4', fw.qual, f'{len(calls)} calls to measure_quantum_vector (exactly one expected: outcome, probabilities and '
                      f'collapsed state must come from the same draw)', m, fw.node, text='MeasureGate.forward one call')
        return n
    c, fi = calls[0]
    b = bind_call(c, fi, skip_self=False)
    state_param = fw.params[1] if len(fw.params) > 1 else None
    want = {fi.params[0]: state_param, fi.params[1]: 'self.index', fi.params[2]: 'self.np_rng'}
    bad = None
    for p, w in want.items():
        a = b.args.get(p)
        got = ast.unparse(a) if a is not None else None
        if got != w:
            bad = f'slot `{p}` of measure_quantum_vector receives `{got}`, expected `{w}`'
            break
    if bad:
        rep.violation('D4', fw.qual, bad, m, c)
    else:
        rep.ok('D4', fw.qual, 'measure_quantum_vector(q0, self.index, self.np_rng)', m, c)
    # unpacking roles
    n += 1
    st = c
    while st is not None and not isinstance(st, ast.Assign):
        st = getattr(st, '_parent', None)
    if st is None or not isinstance(st.targets[0], ast.Tuple) or len(st.targets[0].elts) != 3:
        rep.undecided('D4', fw.qual, 'result of the measurement call is not unpacked into three targets', m, c, text='MeasureGate unpack')
    else:
        t = [ast.unparse(e) for e in st.targets[0].elts]
        rets = [r for r in ast.walk(fw.node) if isinstance(r, ast.Return) and r.value is not None]
        ret_ok = len(rets) == 1 and ast.unparse(rets[0].value) == t[2]
        if t[0] == 'self.bitstr' and t[1] == 'self.probability' and ret_ok:
            rep.ok('D4', fw.qual, 'bitstr, probability stored from positions 0, 1; collapsed state (position 2) returned', m, st)
        else:
            rep.violation('D4', fw.qual, f'result unpacked as {t} and `{ast.unparse(rets[0]) if rets else "no return"}`: expected '
                          f'(self.bitstr, self.probability, <returned state>)', m, st)
    # Circuit.measure
    n += 1
    f = proj.func(f'{CIRC}.measure')
    app = [x for x in ast.walk(f.node) if isinstance(x, ast.Call) and isinstance(x.func, ast.Attribute) and x.func.attr == 'append'
           and 'gate_index_list' in ast.unparse(x.func.value)]
    if len(app) == 1 and isinstance(app[0].args[0], ast.Tuple) and len(app[0].args[0].elts) == 2:
        g, idx = app[0].args[0].elts
        if isinstance(idx, ast.Attribute) and idx.attr == 'index' and ast.unparse(idx.value) == ast.unparse(g):
            rep.ok('D4', f.qual, 'records (gate, gate.index)', f.module, app[0])
        else:
            rep.violation('D4', f.qual, f'records `{ast.unparse(app[0].args[0])}`: the list entry and the gate\'s own (normalised, sorted-checked) '
                          f'index can differ', f.module, app[0])
    else:
        rep.undecided('D4', f.qual, 'append of the measure gate not found', f.module, f.node, text='Circuit.measure append')
    return n


# ------------------------------------------------------------------------------------------------ D5
RULE_D5 = ('D5: the order of target qubits is semantic (it selects which tensor leg of the gate acts on which qubit): in every Circuit '
           'builder the recorded target tuple is hf_tuple_of_int(<argument>) / tuple(int(..)) in the caller\'s order - never sorted, set-ified '
           'or reversed; only the control set may be normalised.')


def d5(proj, rep):
    rep.rule('D5', RULE_D5)
    m = proj.mod(CMOD)
    rep.touch(m)
    n = 0
    fns = []
    ci = proj.cls(CIRC)
    for name, fi in ci.methods.items():
        fns.append((f'{CIRC}.{name}', fi.node))
    for q, fi in proj.funcs.items():
        if fi.module is m and fi.cls is None and q.rsplit('.', 1)[1].startswith('_') and q.endswith('_gate'):
            for inner in fi.node.body:
                if isinstance(inner, ast.FunctionDef):
                    fns.append((q, inner))
    for q, fn in fns:
        for s2 in ast.walk(fn):
            if isinstance(s2, ast.Assign) and isinstance(s2.targets[0], ast.Name) and ('target' in s2.targets[0].id):
                t = ast.unparse(s2.value).replace(' ', '')
                if 'hf_tuple_of_int' not in t and 'int(' not in t:
                    continue
                n += 1
                bad = [w for w in ('sorted(', 'set(', 'reversed(', '[::-1]', 'frozenset(') if w in t]
                if bad:
                    rep.violation('D5', q, f'`{ast.unparse(s2)}` normalises the TARGET qubits with {bad[0].rstrip("(")}: their order is lost, so a gate '
                                  f'whose matrix is not symmetric under exchange of its qubits acts on the wrong legs', m, s2)
                else:
                    rep.ok('D5', q, f'`{ast.unparse(s2)[:70]}` keeps the caller\'s order', m, s2)
    rep.count('D5.target_assignments', n)
    return n


# ------------------------------------------------------------------------------------------------ Q5
RULE_Q5 = ('Q5: in make_asymmetric_error_set every count variable ranges over 0..Q inclusive, where Q is the number of qubits still free '
           '(num_qubit minus the counts of the enclosing loops): the loop is `range(min(Q+1, <weighted bound>))` up to polynomial identity. '
           'A bound of Q drops the operators that act on every free qubit; the sibling make_error_list enumerates them '
           '(combinations(range(num_qubit), r) for r < distance).')


def q5(proj, rep):
    from ..poly import Poly, SymEval, UNK
    rep.rule('Q5', RULE_Q5)
    f = proj.func('numqi.qec._internal.make_asymmetric_error_set')
    m = f.module
    rep.touch(m)
    n = 0

    def visit(body, outer):
        nonlocal n
        for st in body:
            if isinstance(st, ast.For) and isinstance(st.target, ast.Name) and isinstance(st.iter, ast.Call) and isinstance(st.iter.func, ast.Name) \
                    and st.iter.func.id == 'range' and len(st.iter.args) == 1 and isinstance(st.iter.args[0], ast.Call) \
                    and isinstance(st.iter.args[0].func, ast.Name) and st.iter.args[0].func.id == 'min':
                args = st.iter.args[0].args
                names = ['num_qubit', 'distance'] + outer
                se = SymEval({k: Poly.var(k) for k in names})
                Q = Poly.var('num_qubit')
                for o in outer:
                    Q = Q - Poly.var(o)
                cands = [se.ev(a) for a in args]
                qb = [(a, c) for a, c in zip(args, cands) if isinstance(c, Poly) and 'num_qubit' in c.vars()]
                n += 1
                construct = f'{f.qual}[{st.target.id}]'
                if len(qb) != 1:
                    rep.undecided('Q5', construct, f'`{ast.unparse(st.iter)}`: qubit-count bound not identified', m, st.iter)
                    n -= 1
                else:
                    a, c = qb[0]
                    diff = c - Q
                    cv = diff.const_value() if diff.is_const() else None
                    if cv == 1:
                        rep.ok('Q5', construct, f'`{ast.unparse(st.iter)}`: {st.target.id} reaches all {ast.unparse(a)}-1 free qubits', m, st.iter)
                    elif cv is not None and cv < 1:
                        rep.violation('Q5', construct, f'`{ast.unparse(st.iter)}`: {st.target.id} stops at {ast.unparse(a)}-1, one short of the '
                                      f'free qubits ({"num_qubit" if not outer else "num_qubit-" + "-".join(outer)}): operators acting on '
                                      f'every free qubit are never generated although they lie below the weighted bound', m, st.iter)
                    else:
                        rep.undecided('Q5', construct, f'`{ast.unparse(st.iter)}`: bound differs from the free-qubit count by a non-constant', m, st.iter)
                        n -= 1
                visit(st.body, outer + [st.target.id])
            elif isinstance(st, (ast.For, ast.If, ast.While)):
                visit(st.body, outer)
                visit(getattr(st, 'orelse', []), outer)
    visit(f.node.body, [])
    rep.count('Q5.count_loops', n)
    return n


# ------------------------------------------------------------------------------------------------ Q6
RULE_Q6 = ('Q6: the weight enumerators are normalised by the true code dimension K: A_w by K^2, B_w by K, where K is `code.shape[0]` read BEFORE the code is '
           'zero-padded to a power of two (the padding only exists so that the simulator can index the logical register). Reading K after the padding '
           'breaks the sum rules 1 + sum A = 2^n / K, 1 + sum B = 2^n K for every K that is not a power of two.')


def q6(proj, rep):
    rep.rule('Q6', RULE_Q6)
    f = proj.func('numqi.qec._internal.quantum_weight_enumerator')
    m = f.module
    rep.touch(m)
    body = f.node.body
    n = 0
    divs = [s for s in body if isinstance(s, ast.AugAssign) and isinstance(s.op, ast.Div) and isinstance(s.target, ast.Name)]
    rebinds = [s for s in ast.walk(f.node) if isinstance(s, ast.Assign) and isinstance(s.targets[0], ast.Name) and s.targets[0].id == 'code']
    first_rebind = min((s.lineno for s in rebinds), default=10 ** 9)
    if len(divs) < 2:
        rep.undecided('Q6', f.qual, 'normalising divisions not found', m, f.node, text='normalisation')
        return 0
    for d in divs:
        n += 1
        names = [x.id for x in ast.walk(d.value) if isinstance(x, ast.Name)]
        t = ast.unparse(d.value).replace(' ', '')
        if len(names) != 1:
            rep.undecided('Q6', f'{f.qual}[{d.target.id}]', f'divisor `{t}` not a power of one name', m, d)
            n -= 1
            continue
        K = names[0]
        kdefs = [s for s in body if isinstance(s, ast.Assign) and isinstance(s.targets[0], ast.Name) and s.targets[0].id == K]
        want_pow = 2 if d.target.id.endswith('A') else 1
        pow_ok = (t == f'{K}**2') if want_pow == 2 else (t == K)
        if len(kdefs) != 1 or ast.unparse(kdefs[0].value).replace(' ', '') != 'code.shape[0]':
            rep.undecided('Q6', f'{f.qual}[{d.target.id}]', f'`{K}` is not bound once from code.shape[0]', m, d)
            n -= 1
        elif kdefs[0].lineno > first_rebind:
            rep.violation('Q6', f'{f.qual}[{d.target.id}]', f'`{K} = code.shape[0]` is read after `code` was zero-padded (line {first_rebind}): {d.target.id} is divided by the '
                          f'padded dimension, so the sum rules fail for every code dimension that is not a power of two', m, kdefs[0])
        elif not pow_ok:
            rep.violation('Q6', f'{f.qual}[{d.target.id}]', f'`{ast.unparse(d)}`: {d.target.id} must be divided by K{"^2" if want_pow == 2 else ""}', m, d)
        else:
            rep.ok('Q6', f'{f.qual}[{d.target.id}]', f'`{ast.unparse(d)}` with {K} = code.shape[0] read before the padding', m, d)
    rep.count('Q6.normalisations', n)
    return n


# ------------------------------------------------------------------------------------------------ Q7
RULE_Q7 = ('Q7: hf_split_element distributes the LABELS in `np0` over the groups: the chosen positions `ind0` (from combinations(range(len(np0)), k)) are '
           'translated through `np0[ind0]` both where a group closes the recursion (leaf yield) and where the recursion continues (prefix). Yielding the '
           'positions themselves equals the labels only at the top level; after earlier groups removed qubits the later groups land on wrong qubits.')


def q7(proj, rep):
    rep.rule('Q7', RULE_Q7)
    f = proj.func('numqi.qec._internal.hf_split_element')
    m = f.module
    rep.touch(m)
    n = 0
    sites = []
    for x in ast.walk(f.node):
        if isinstance(x, ast.Tuple) and len(x.elts) == 1 and isinstance(x.elts[0], ast.Call) and isinstance(x.elts[0].func, ast.Name) and x.elts[0].func.id == 'tuple' \
                and x.elts[0].args and 'ind0' in ast.unparse(x.elts[0].args[0]):
            sites.append(x)
    for x in sites:
        n += 1
        t = ast.unparse(x.elts[0].args[0]).replace(' ', '')
        st = x
        while not isinstance(st, ast.stmt):
            st = st._parent
        if t in ('np0[ind0].tolist()', 'np0[ind0]'):
            rep.ok('Q7', f.qual, f'`{ast.unparse(st)[:60]}`: positions translated to labels through np0', m, st)
        elif t in ('ind0', 'list(ind0)'):
            rep.violation('Q7', f.qual, f'`{ast.unparse(st)[:60]}` yields the POSITIONS chosen among the remaining elements instead of the labels np0[ind0]: once earlier groups '
                          f'have taken qubits, this group acts on other qubits than intended (operators hitting one qubit twice, others missing)', m, st)
        else:
            rep.undecided('Q7', f.qual, f'`{t}` not recognised', m, st)
            n -= 1
    rep.count('Q7.label_translations', n)
    return n
