"""PT1-PT3 — structural clauses of C17 (partial traces and the Dicke reduction).

PT1  numqi.utils.partial_trace builds its einsum leg lists at run time, but from four idioms; they are typed symbolically:
       rows  = list(range(N0))                       leg i           for subsystem i (row index)
       cols  = list(range(N0, 2*N0))                 leg N0+i        for subsystem i (column index)
       T     = set(range(N0)) - set(K)               the complement of the kept set K
       for x in T: cols[x] = x                       traced subsystems share ONE leg between row and column  (=> summed)
       out   = list(K) + [x+N0 for x in K]           kept rows, then kept columns, same order, same offset
     The einsum is then literally the explicit contraction the property states.  Decided: (a) the shared-leg loop runs over the
     complement of K and writes the row leg of the same subsystem, (b) K is normalised (sorted set) before BOTH uses, (c) the output is
     rows-then-columns over the same K with the column offset N0, (d) the operand legs are rows+cols in that order.
PT2  get_partial_trace_ABk_to_AB_index: for r != s the coefficient pairs a source occupation tuple k with the target k - e_r + e_s; the
     value sqrt(k_src[r] * k_tgt[s]) / n must read the DECREMENTED slot on the source row list and the INCREMENTED slot on the target row
     list; the diagonal arm uses k[r] / n on identical index lists.
PT3  partial_trace_ABk_to_AB: each term is (psi[:, I] * value) @ conj(psi)[:, J].T with (I, J, value) in the order the table stores them
     (conjugate on the J factor only); the stacked (A, A', r*s) array is reshaped (A, A', r, s) and permuted to (A, r, A', s) - numpy
     transpose(0,2,1,3) / torch transpose(1,2) - before the final (A*B, A*B) reshape.
"""
import ast

RULES = {
    'PT1': ('PT1: partial_trace types its einsum legs as rows=range(N0), cols=range(N0,2N0); exactly the subsystems in the complement of the '
            '(sorted, de-duplicated) keep set get their column leg replaced by their own row leg; the output legs are the kept rows followed '
            'by the kept columns in the same order with the same offset N0; the operand is contracted with legs rows+cols.'),
    'PT2': ('PT2: in the Dicke reduction table the off-diagonal coefficient of |r><s| pairs the occupation tuple k with k - e_r + e_s and its value '
            'is sqrt(k_source[r] * k_target[s]) / n: the decremented slot is read on the source list, the incremented slot on the target list; '
            'the diagonal coefficient is k[r] / n on identical index lists.'),
    'PT3': ('PT3: partial_trace_ABk_to_AB contracts (psi[:,I]*value) @ conj(psi)[:,J].T with (I,J,value) in table order, conjugating the J '
            'factor only, and reorders the stacked (A,A\',r,s) array to (A,r,A\',s) before the (A*B, A*B) reshape in both backends.'),
}


def _txt(e):
    return ast.unparse(e).replace(' ', '')


def _parent_stmt(n):
    while not isinstance(n, ast.stmt):
        n = n._parent
    return n


def pt1(proj, rep):
    rep.rule('PT1', RULES['PT1'])
    f = proj.func('numqi.utils.partial_trace')
    m = f.module
    rep.touch(m)
    body = f.node.body
    asg = {}
    for st in body:
        if isinstance(st, ast.Assign) and isinstance(st.targets[0], ast.Name):
            asg.setdefault(st.targets[0].id, []).append(st)
    ein = next((c for c in ast.walk(f.node) if isinstance(c, ast.Call) and _txt(c.func).endswith('einsum')), None)
    if ein is None or len(ein.args) < 3:
        rep.undecided('PT1', f.qual, 'einsum(rho, legs, out) call not found', m, f.node, text='einsum')
        return 0
    legs, out = ein.args[1], ein.args[2]
    n = 0
    if not (isinstance(legs, ast.BinOp) and isinstance(legs.op, ast.Add) and isinstance(legs.left, ast.Name) and isinstance(legs.right, ast.Name)
            and isinstance(out, ast.Name)):
        rep.undecided('PT1', f.qual, f'leg arguments `{_txt(legs)}`, `{_txt(out)}` are not the recognised name idiom', m, ein, text='legs')
        return 0
    rows, cols, outn = legs.left.id, legs.right.id, out.id

    def single(name):
        return asg[name][0].value if name in asg and len(asg[name]) == 1 else None

    # which size name is N0
    vrows, vcols = single(rows), single(cols)
    # (d) operand legs rows + cols
    n += 1
    okr = vrows is not None and _txt(vrows).startswith('list(range(') and _txt(vrows).count(',') == 0
    N0 = _txt(vrows)[len('list(range('):-2] if okr else None
    okc = vcols is not None and N0 is not None and _txt(vcols) in (f'list(range({N0},2*{N0}))', f'list(range({N0},{N0}*2))', f'list(range({N0},{N0}+{N0}))')
    if okr and okc:
        rep.ok('PT1', f'{f.qual}[operand legs]', f'einsum legs {rows}+{cols} = range({N0}) ++ range({N0},2*{N0})', m, ein)
    elif vrows is not None and vcols is not None and _txt(vcols).startswith('list(range(') and _txt(vrows).startswith(f'list(range({_txt(vcols)[11:].split(",")[0]},'):
        rep.violation('PT1', f'{f.qual}[operand legs]', f'the operand is contracted with legs {_txt(vrows)} ++ {_txt(vcols)}: column legs before row legs '
                      f'(the result is the partial trace of the transpose)', m, ein)
        return n
    else:
        rep.undecided('PT1', f'{f.qual}[operand legs]', f'{rows} = `{_txt(vrows) if vrows is not None else None}`, {cols} = `{_txt(vcols) if vcols is not None else None}` not recognised', m, ein)
        return n - 1
    # keep set normalisation: the last assignment to keep_index before the legs are built is sorted(set(keep_index))
    K = None
    vout = single(outn)
    if vout is not None and isinstance(vout, ast.BinOp) and isinstance(vout.op, ast.Add):
        a, b = vout.left, vout.right
        ka = _txt(a)
        if ka.startswith('list(') and ka.endswith(')'):
            ka = ka[5:-1]
        if isinstance(b, ast.ListComp) and len(b.generators) == 1 and isinstance(b.generators[0].target, ast.Name):
            g = b.generators[0]
            kb, var = _txt(g.iter), g.target.id
            elt = _txt(b.elt)
            n += 1
            if elt in (f'{var}+{N0}', f'{N0}+{var}') and ka == kb:
                K = ka
                rep.ok('PT1', f'{f.qual}[output legs]', f'output = {K} ++ [{elt} for {var} in {K}]: kept rows then kept columns', m, asg[outn][0])
            elif elt in (f'{var}+{N0}', f'{N0}+{var}') and ka != kb:
                rep.violation('PT1', f'{f.qual}[output legs]', f'row legs iterate `{ka}` but column legs iterate `{kb}`: rows and columns of the result are '
                              f'ordered differently', m, asg[outn][0])
                return n
            elif elt == var:
                rep.violation('PT1', f'{f.qual}[output legs]', f'`{_txt(vout)}`: the second half of the output repeats the row legs instead of the column '
                              f'legs (offset {N0} missing)', m, asg[outn][0])
                return n
            else:
                rep.violation('PT1', f'{f.qual}[output legs]', f'`{_txt(vout)}`: column legs use offset `{elt}` but the columns were numbered from {N0}', m, asg[outn][0])
                return n
        elif isinstance(a, ast.ListComp) and not isinstance(b, ast.ListComp):
            n += 1
            rep.violation('PT1', f'{f.qual}[output legs]', f'`{_txt(vout)}`: kept COLUMN legs come before the kept row legs: the result is transposed', m, asg[outn][0])
            return n
    if K is None:
        rep.undecided('PT1', f'{f.qual}[output legs]', f'`{_txt(vout) if vout is not None else None}` not recognised', m, ein, text='out legs')
        return n
    # (b) K normalised
    n += 1
    kdefs = [st for st in asg.get(K, [])]
    norm = [st for st in kdefs if _txt(st.value) in (f'sorted(set({K}))', f'sorted({{*{K}}})', f'sorted(set(int(x)forxin{K}))')]
    if norm and norm[-1].lineno < asg[outn][0].lineno:
        rep.ok('PT1', f'{f.qual}[keep set]', f'{K} = sorted(set({K})) before the legs are built', m, norm[-1])
    else:
        before = [st for st in kdefs if st.lineno < asg[outn][0].lineno]
        last = before[-1] if before else None
        sorts = lambda e: any(isinstance(c, ast.Call) and _txt(c.func).split('.')[-1] in ('sorted', 'sort', 'unique', 'argsort') for c in ast.walk(e))
        later_sort = any(isinstance(c, ast.Call) and isinstance(c.func, ast.Attribute) and c.func.attr == 'sort' and _txt(c.func.value) == K for c in ast.walk(f.node))
        seq = last is not None and (isinstance(last.value, (ast.List, ast.ListComp, ast.Tuple)) or (
            isinstance(last.value, ast.Call) and _txt(last.value.func) in ('list', 'tuple') and not any(
                isinstance(c, ast.Call) and _txt(c.func) in ('set', 'frozenset') for c in ast.walk(last.value))))
        if last is not None and seq and not sorts(last.value) and not later_sort and any(isinstance(x, ast.Name) and x.id == K for x in ast.walk(last.value)):
            rep.violation('PT1', f'{f.qual}[keep set]', f'`{_txt(last)[:70]}` keeps the caller\'s order of `{K}`: an unsorted subset (1, 0) returns the subsystem-permuted operator; '
                          f'the kept subsystems come out in ascending order only through sorted(..)', m, last)
        else:
            rep.undecided('PT1', f'{f.qual}[keep set]', f'`{K}` is not recognisably sorted(set(..)) before the legs are built', m, f.node, text='keep set')
            n -= 1
    # (a) shared legs over the complement
    n += 1
    loops = [st for st in body if isinstance(st, ast.For) and isinstance(st.target, ast.Name)
             and len(st.body) == 1 and isinstance(st.body[0], ast.Assign) and isinstance(st.body[0].targets[0], ast.Subscript)]
    lp = None
    for st in loops:
        t = st.body[0].targets[0]
        if isinstance(t.value, ast.Name) and t.value.id in (rows, cols):
            lp = st
    if lp is None:
        rep.undecided('PT1', f'{f.qual}[shared legs]', 'loop that identifies row and column legs of the traced subsystems not found', m, f.node, text='shared legs')
        return n - 1
    var = lp.target.id
    t = lp.body[0].targets[0]
    val = _txt(lp.body[0].value)
    idx = _txt(t.slice)
    tgt_list = t.value.id
    want_val = var if tgt_list == cols else (f'{var}+{N0}', f'{N0}+{var}')
    it = lp.iter
    itv = single(it.id) if isinstance(it, ast.Name) else it
    itx = _txt(itv) if itv is not None else ''
    comp_ok = itx in (f'set(range({N0}))-set({K})', f'set(range({N0})).difference({K})', f'set(range({N0}))-{{*{K}}}') or \
        itx in (f'[xforxinrange({N0})ifxnotin{K}]', f'[{var}for{var}inrange({N0})if{var}notin{K}]')
    if idx != var:
        rep.violation('PT1', f'{f.qual}[shared legs]', f'`{_txt(lp.body[0])}` inside `for {var} in ...`: the leg of subsystem `{idx}` is overwritten, not '
                      f'that of the loop subsystem', m, lp)
    elif (val != want_val) if isinstance(want_val, str) else (val not in want_val):
        rep.violation('PT1', f'{f.qual}[shared legs]', f'`{_txt(lp.body[0])}`: the traced subsystem must reuse ITS OWN other leg ({want_val}); `{val}` '
                      f'contracts it with a different subsystem', m, lp)
    elif comp_ok:
        rep.ok('PT1', f'{f.qual}[shared legs]', f'for {var} in range({N0}) - {K}: {tgt_list}[{var}] = {val}', m, lp)
    elif itx == K or itx in (f'set({K})', f'list({K})'):
        rep.violation('PT1', f'{f.qual}[shared legs]', f'the shared-leg loop runs over the KEPT subsystems `{itx}`: they are traced out and the others kept', m, lp)
    else:
        rep.undecided('PT1', f'{f.qual}[shared legs]', f'loop domain `{itx}` is not recognisably the complement of {K}', m, lp)
        n -= 1
    # (e) the contraction result is what is returned: C-linear in rho, no later re-assignment
    n += 1
    rname = None
    est = _parent_stmt(ein)
    if isinstance(est, ast.Assign) and isinstance(est.targets[0], ast.Name):
        rname = est.targets[0].id
    later = [st for st in body if rname and st.lineno > est.lineno and any(isinstance(x, ast.Name) and x.id == rname and isinstance(x.ctx, ast.Store) for x in ast.walk(st))]
    anti = [x for x in ast.walk(f.node) if (isinstance(x, ast.Attribute) and x.attr in ('conj', 'conjugate', 'real', 'imag', 'H')) or
            (isinstance(x, ast.Call) and _txt(x.func) in ('abs', 'np.abs', 'np.conj', 'np.conjugate', 'np.real', 'np.imag'))]
    rets = [st for st in ast.walk(f.node) if isinstance(st, ast.Return)]
    if anti:
        rep.violation('PT1', f'{f.qual}[linearity]', f'`{ast.unparse(_parent_stmt(anti[0]))[:80]}` applies an anti-linear / real-part operation: the partial trace of a '
                      f'non-Hermitian operator is no longer the explicit contraction', m, _parent_stmt(anti[0]))
    elif later:
        rep.violation('PT1', f'{f.qual}[linearity]', f'`{ast.unparse(later[0])[:80]}` re-assigns the contraction result before it is returned', m, later[0])
    elif len(rets) == 1 and isinstance(rets[0].value, ast.Name) and rets[0].value.id == rname:
        rep.ok('PT1', f'{f.qual}[linearity]', 'the einsum result is returned as is', m, rets[0])
    else:
        rep.undecided('PT1', f'{f.qual}[linearity]', 'return structure not recognised', m, f.node, text='linearity')
        n -= 1
    rep.count('PT1.obligations', n)
    return n


def pt2(proj, rep):
    rep.rule('PT2', RULES['PT2'])
    f = proj.func('numqi.dicke.get_partial_trace_ABk_to_AB_index')
    m = f.module
    rep.touch(m)
    n = 0
    # loops for r (outer), s (inner)
    fors = [x for x in ast.walk(f.node) if isinstance(x, ast.For) and isinstance(x.target, ast.Name) and _txt(x.iter) == 'range(dim)']
    if len(fors) < 2:
        rep.undecided('PT2', f.qual, 'r/s loops over range(dim) not found', m, f.node, text='loops')
        return 0
    r, s = fors[0].target.id, fors[1].target.id
    branch = next((x for x in ast.walk(fors[1]) if isinstance(x, ast.If) and _txt(x.test) in (f'{r}=={s}', f'{s}=={r}')), None)
    if branch is None:
        rep.undecided('PT2', f.qual, 'diagonal / off-diagonal branch not found', m, f.node, text='branch')
        return 0
    # ---- diagonal arm
    n += 1
    app = next((c for c in ast.walk(ast.Module(body=branch.body, type_ignores=[])) if isinstance(c, ast.Call) and _txt(c.func).endswith('.append')), None)
    dvals = {st.targets[0].id: st.value for st in branch.body if isinstance(st, ast.Assign) and isinstance(st.targets[0], ast.Name)}
    okd = False
    if app is not None and isinstance(app.args[0], ast.Tuple) and len(app.args[0].elts) == 3:
        a, b, c = [dvals.get(e.id) if isinstance(e, ast.Name) else e for e in app.args[0].elts]
        if a is not None and b is not None and c is not None:
            ta, tb, tc = _txt(a), _txt(b), _txt(c)
            okd = ta == tb and ta.startswith('np.arange(') and tc in (f'klist_np[:,{r}]/num_qudit', f'klist_np[:,{s}]/num_qudit')
            if okd:
                rep.ok('PT2', f'{f.qual}[diagonal]', f'(arange, arange, {tc})', m, app)
            elif ta != tb:
                rep.violation('PT2', f'{f.qual}[diagonal]', f'diagonal coefficient uses different index lists `{ta}` / `{tb}`', m, app)
            else:
                rep.violation('PT2', f'{f.qual}[diagonal]', f'diagonal value is `{tc}`, expected the occupation klist_np[:, {r}] / num_qudit', m, app)
        else:
            rep.undecided('PT2', f'{f.qual}[diagonal]', 'tuple elements not resolvable', m, app)
            n -= 1
    else:
        rep.undecided('PT2', f'{f.qual}[diagonal]', 'append((I, J, value)) not found', m, branch)
        n -= 1
    # ---- off-diagonal arm
    off = branch.orelse
    offm = ast.Module(body=off, type_ignores=[])
    dec = inc = None
    for st in ast.walk(offm):
        if isinstance(st, ast.AugAssign) and isinstance(st.target, ast.Subscript) and isinstance(st.value, ast.Constant) and st.value.value == 1:
            if isinstance(st.op, ast.Sub):
                dec = (_txt(st.target.slice), st)
            elif isinstance(st.op, ast.Add):
                inc = (_txt(st.target.slice), st)
    n += 1
    if dec is None or inc is None:
        rep.undecided('PT2', f'{f.qual}[off-diagonal move]', 'k - e_r + e_s update not found', m, branch)
        return n - 1
    if dec[0] == inc[0]:
        rep.violation('PT2', f'{f.qual}[off-diagonal move]', f'the same slot `{dec[0]}` is decremented and incremented', m, dec[1])
        return n
    rep.ok('PT2', f'{f.qual}[off-diagonal move]', f'target tuple = k - e_{dec[0]} + e_{inc[0]}', m, dec[1])
    # source / target index arrays: arrays of x[0] and x[1] of the pair list whose elements are (x, klist_to_index[moved])
    pair = next((c for c in ast.walk(offm) if isinstance(c, ast.Call) and _txt(c.func).endswith('.append') and isinstance(c.args[0], ast.Tuple)
                 and len(c.args[0].elts) == 2), None)
    arrs = {}
    for st in off:
        if isinstance(st, ast.Assign) and isinstance(st.targets[0], ast.Name) and isinstance(st.value, ast.Call) and _txt(st.value.func) == 'np.array' \
                and st.value.args and isinstance(st.value.args[0], ast.ListComp):
            e = st.value.args[0].elt
            if isinstance(e, ast.Subscript) and isinstance(e.slice, ast.Constant):
                arrs[st.targets[0].id] = e.slice.value
    n += 1
    src_first = pair is not None and isinstance(pair.args[0].elts[0], ast.Name) and 'klist_to_index' in _txt(pair.args[0].elts[1])
    val = None
    for st in off:
        if isinstance(st, ast.Assign) and isinstance(st.targets[0], ast.Name) and 'sqrt' in _txt(st.value):
            val = st
    if not src_first or val is None or len(arrs) < 2:
        rep.undecided('PT2', f'{f.qual}[off-diagonal value]', 'pair list / value expression not recognised', m, branch)
        return n - 1
    reads = []
    for sub in ast.walk(val.value):
        if isinstance(sub, ast.Subscript) and isinstance(sub.value, ast.Name) and sub.value.id == 'klist_np' and isinstance(sub.slice, ast.Tuple) \
                and len(sub.slice.elts) == 2 and isinstance(sub.slice.elts[0], ast.Name):
            reads.append((arrs.get(sub.slice.elts[0].id), _txt(sub.slice.elts[1])))
    want = {(0, dec[0]), (1, inc[0])}
    if set(reads) == want and len(reads) == 2 and _txt(val.value).endswith('/num_qudit'):
        rep.ok('PT2', f'{f.qual}[off-diagonal value]', f'sqrt(k_source[{dec[0]}] * k_target[{inc[0]}]) / num_qudit', m, val)
    elif None in [a for a, _ in reads] or len(reads) != 2:
        rep.undecided('PT2', f'{f.qual}[off-diagonal value]', f'occupation reads {reads} not resolvable', m, val)
        n -= 1
    else:
        side = {0: 'source', 1: 'target'}
        got = ', '.join(f'k_{side[a]}[{b}]' for a, b in reads)
        rep.violation('PT2', f'{f.qual}[off-diagonal value]', f'`{_txt(val)[:80]}` reads {got}; the matrix element of a_s^dagger a_r needs the decremented slot '
                      f'{dec[0]} on the source tuple and the incremented slot {inc[0]} on the target tuple', m, val)
    rep.count('PT2.obligations', n)
    return n


def pt3(proj, rep):
    rep.rule('PT3', RULES['PT3'])
    f = proj.func('numqi.dicke.partial_trace_ABk_to_AB')
    m = f.module
    rep.touch(m)
    n = 0
    lp = next((x for x in ast.walk(f.node) if isinstance(x, ast.For) and isinstance(x.target, ast.Tuple) and len(x.target.elts) == 3), None)
    if lp is None:
        rep.undecided('PT3', f.qual, 'loop over (I, J, value) triples not found', m, f.node, text='loop')
        return 0
    I, J, V = [e.id for e in lp.target.elts]
    mm = next((b for b in ast.walk(lp) if isinstance(b, ast.BinOp) and isinstance(b.op, ast.MatMult)), None)
    n += 1
    if mm is None:
        rep.undecided('PT3', f.qual, 'term contraction not found', m, lp)
        return 0
    lt, rt = _txt(mm.left), _txt(mm.right)
    conj_names = {st.targets[0].id for st in f.node.body if isinstance(st, ast.Assign) and isinstance(st.targets[0], ast.Name) and 'conj' in _txt(st.value)}

    def is_conj(t):
        return 'conj' in t or any(t.startswith(c + '[') or ('(' + c + '[') in t for c in conj_names)
    l_idx = I if f'[:,{I}]' in lt else (J if f'[:,{J}]' in lt else None)
    r_idx = I if f'[:,{I}]' in rt else (J if f'[:,{J}]' in rt else None)
    if l_idx is None or r_idx is None:
        rep.undecided('PT3', f'{f.qual}[term]', f'`{_txt(mm)}`: column selections not recognised', m, mm)
        n -= 1
    elif (l_idx, r_idx) != (I, J):
        rep.violation('PT3', f'{f.qual}[term]', f'`{_txt(mm)}` selects columns ({l_idx}, {r_idx}); the table stores (ket index, bra index, value) = ({I}, {J}, {V}): '
                      f'the reduced state is transposed on B', m, _parent_stmt(mm))
    elif is_conj(lt) or not is_conj(rt):
        rep.violation('PT3', f'{f.qual}[term]', f'`{_txt(mm)}`: the conjugate must sit on the {J} (bra) factor only', m, _parent_stmt(mm))
    elif '.T' not in rt and 'transpose' not in rt:
        rep.violation('PT3', f'{f.qual}[term]', f'`{_txt(mm)}`: the bra factor is not transposed', m, _parent_stmt(mm))
    else:
        rep.ok('PT3', f'{f.qual}[term]', f'(psi[:,{I}]*{V}) @ conj(psi)[:,{J}].T', m, _parent_stmt(mm))
    # reorder per backend
    for st in ast.walk(f.node):
        if isinstance(st, ast.Assign) and 'stack' in _txt(st.value) and 'reshape' in _txt(st.value):
            t = _txt(st.value)
            backend = 'torch' if t.startswith('torch.') else 'numpy'
            n += 1
            ok_stack = ('dim=2' in t) if backend == 'torch' else ('axis=2' in t)
            ok_shape = '.reshape(dimA,dimA,dimB,dimB)' in t and t.endswith('.reshape(dimA*dimB,dimA*dimB)')
            perm_ok = ('.transpose(1,2).' in t or '.transpose(2,1).' in t or '.permute(0,2,1,3).' in t) if backend == 'torch' else '.transpose(0,2,1,3).' in t
            if ok_stack and ok_shape and perm_ok:
                rep.ok('PT3', f'{f.qual}[{backend} reorder]', '(A,A\',r,s) -> (A,r,A\',s) -> (A*B, A*B)', m, st)
            elif ok_stack and ok_shape:
                rep.violation('PT3', f'{f.qual}[{backend} reorder]', f'`{ast.unparse(st.value)[-90:]}`: the stacked (A,A\',r,s) array is not permuted to '
                              f'(A,r,A\',s): rows and columns of the AB matrix mix the A and B indices wrongly', m, st)
            else:
                rep.undecided('PT3', f'{f.qual}[{backend} reorder]', 'stack/reshape idiom not recognised', m, st)
                n -= 1
    # every path goes through the table: one return, at the end
    n += 1
    rets = [st for st in ast.walk(f.node) if isinstance(st, ast.Return)]
    if len(rets) == 1 and f.node.body[-1] is rets[0]:
        rep.ok('PT3', f'{f.qual}[single path]', 'one return, after the loop over the table', m, rets[0])
    else:
        early = [r for r in rets if r is not f.node.body[-1]]
        uses = any(isinstance(x, ast.Name) and x.id == 'dicke_Bij' for r in early for x in ast.walk(r))
        if early and not uses:
            rep.violation('PT3', f'{f.qual}[single path]', f'`{ast.unparse(early[0])[:80]}` returns without consulting the reduction table `dicke_Bij`: the order of the '
                          f'B basis is fixed by the table (get_dicke_klist lists occupations from (0,..,n) down), a shortcut that ignores it returns the '
                          f'state in another basis order', m, early[0])
        else:
            rep.undecided('PT3', f'{f.qual}[single path]', 'additional return paths are not understood', m, f.node, text='single path')
            n -= 1
    rep.count('PT3.obligations', n)
    return n
