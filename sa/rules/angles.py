"""AG1 / F3 — range discipline of inverse trigonometric functions in the Euler-angle extraction (C15)."""
import ast
from ..callgraph import resolve_callee
from ..dataflow import own_nodes

RULE_AG1 = ('AG1: an angle that lives on a full circle ([0,2*pi) : alpha, gamma, alpha+gamma, alpha-gamma) is never recovered from arccos / '
            'arcsin of ONE argument alone - that determines it only up to sign.  Every masked store into an angle array whose value comes '
            'from arccos/arcsin must be accompanied, in the same branch, by a sign resolution that uses a second, independent matrix entry '
            '(a comparison `< 0` / `> 0` on another entry feeding the stored value), or use arctan2(sin-like entry, cos-like entry).')
RULE_F3 = ('F3: arccos / arcsin are applied to a clipped argument (np.clip(x,-1,1) / minimum+maximum) when the argument is a matrix entry or '
           'a product of entries: for exactly degenerate rotations, and for axis-aligned Euler angles in the generic branch (entry / sin(beta)), it evaluates to '
           '1 + ulp and the bare call returns NaN.')

FN = 'numqi.group._lie._so3_to_angle_hf0'
FULL_CIRCLE = {'alpha', 'gamma'}
INV = {'numpy.arccos', 'numpy.arcsin'}


def _ext(proj, m, c):
    r = resolve_callee(proj, m, c)
    return r.qual if r.kind == 'external' else None


def _names(e):
    return {n.id for n in ast.walk(e) if isinstance(n, ast.Name)}


def ag1(proj, rep):
    rep.rule('AG1', RULE_AG1)
    rep.rule('F3', RULE_F3)
    fi = proj.func(FN)
    m = fi.module
    rep.touch(m)
    entries = set(fi.params) - {'zero_eps'}
    n = 0
    # every `if np.any(mask):` branch
    for br in [s for s in fi.node.body if isinstance(s, ast.If)]:
        # local definitions in this branch
        defs = {}
        for s in br.body:
            if isinstance(s, ast.Assign) and isinstance(s.targets[0], ast.Name):
                defs.setdefault(s.targets[0].id, []).append(s.value)
        for s in br.body:
            if not (isinstance(s, ast.Assign) and isinstance(s.targets[0], ast.Subscript) and isinstance(s.targets[0].value, ast.Name)
                    and s.targets[0].value.id in FULL_CIRCLE):
                continue
            tgt = s.targets[0].value.id
            # closure of the stored value through branch-local names (latest definition before this statement)
            seen = set()
            work = [s.value]
            exprs = []
            while work:
                e = work.pop()
                exprs.append(e)
                for nm in _names(e):
                    if nm in defs and nm not in seen:
                        seen.add(nm)
                        work.extend(defs[nm])
            inv_calls = [c for e in exprs for c in ast.walk(e) if isinstance(c, ast.Call) and _ext(proj, m, c) in INV]
            atan2 = [c for e in exprs for c in ast.walk(e) if isinstance(c, ast.Call) and _ext(proj, m, c) == 'numpy.arctan2']
            if not inv_calls and not atan2:
                if isinstance(s.value, ast.Constant):
                    continue
                continue
            n += 1
            construct = f'{FN}[{ast.unparse(br.test)}][{tgt}]'
            if atan2 and not inv_calls:
                a = atan2[0]
                e0, e1 = _names(a.args[0]) & entries, _names(a.args[1]) & entries
                if e0 and e1 and e0 != e1:
                    rep.ok('AG1', construct, f'`{ast.unparse(a)[:60]}` uses two independent entries', m, s)
                else:
                    rep.violation('AG1', construct, f'`{ast.unparse(a)[:60]}`: both arguments depend on the same entry', m, s)
                continue
            # arccos: need a sign resolution from a second entry feeding the stored value
            used = set()
            for c in inv_calls:
                used |= _names(c.args[0]) & entries
            sign_entries = set()
            for e in exprs:
                for cmp_ in ast.walk(e):
                    if isinstance(cmp_, ast.Compare) and isinstance(cmp_.ops[0], (ast.Lt, ast.Gt, ast.LtE, ast.GtE)) \
                            and isinstance(cmp_.comparators[0], ast.Constant) and cmp_.comparators[0].value == 0:
                        sign_entries |= (_names(cmp_.left) & entries)
            extra = sign_entries - used
            if extra:
                rep.ok('AG1', construct, f'arccos of {sorted(used)} with the sign taken from {sorted(extra)}', m, s)
            else:
                rep.violation('AG1', construct, f'`{ast.unparse(s)[:70]}`: the angle is recovered from arccos of {sorted(used)} only; cos alone '
                              f'determines a full-circle angle up to sign (e.g. Rz(4.5) is returned as Rz(2*pi-4.5))', m, s)
    # F3: arccos of a bare entry
    for c in own_nodes(fi.node):
        if isinstance(c, ast.Call) and _ext(proj, m, c) in INV and c.args:
            a = c.args[0]
            n += 1
            t = ast.unparse(a).replace(' ', '')
            clipped = isinstance(a, ast.Call) and (_ext(proj, m, a) in ('numpy.clip',) or ast.unparse(a.func).endswith('.clip'))
            bare_entry = isinstance(a, ast.Name) and a.id in entries or (isinstance(a, ast.Subscript) and isinstance(a.value, ast.Name) and a.value.id in entries) \
                or (isinstance(a, ast.UnaryOp) and isinstance(a.operand, (ast.Name, ast.Subscript)))
            if clipped:
                rep.ok('F3', FN, f'`{ast.unparse(c)[:60]}` argument clipped', m, c)
            elif bare_entry:
                rep.violation('F3', FN, f'`{ast.unparse(c)[:60]}`: the bare matrix entry reaches 1+ulp for exactly degenerate rotations -> NaN', m, c)
            else:
                rep.violation('F3', FN, f'`{ast.unparse(c)[:70]}`: the un-clipped ratio evaluates to 1+ulp for axis-aligned Euler angles (alpha or gamma '
                              f'equal to 0 or pi) -> NaN', m, c)
    return n
