"""AG1 / F3 — range discipline of inverse trigonometric functions in the Euler-angle extraction (C15)."""
import ast
from ..callgraph import resolve_callee
from ..dataflow import own_nodes

RULE_AG1 = ('AG1: an angle that lives on a full circle ([0,2*pi) : alpha, gamma, alpha+gamma, alpha-gamma) is never recovered from arccos / '
            'arcsin of ONE argument alone - that determines it only up to sign.  Every masked store into an angle array whose value comes '
            'from arccos/arcsin must be accompanied, in the same branch, by a sign resolution that uses a second, independent matrix entry '
            '(a comparison `< 0` / `> 0` on another entry feeding the stored value), or use arctan2(sin-like entry, cos-like entry).')
RULE_F3 = ('F3: arccos / arcsin are applied to a clipped argument (np.clip(x,-1,1) / minimum+maximum) when the argument is a matrix entry or '
           'a product of entries: for exactly degenerate rotations, and for axis-aligned Euler angles in the generic branch (entry / sin(beta)), it evaluates to '
           '1 + ulp and the bare call returns NaN.')

FN = 'numqi.group._lie._so3_to_angle_hf0'
FULL_CIRCLE = {'alpha', 'gamma'}
INV = {'numpy.arccos', 'numpy.arcsin'}


def _ext(proj, m, c):
    r = resolve_callee(proj, m, c)
    return r.qual if r.kind == 'external' else None


def _names(e):
    return {n.id for n in ast.walk(e) if isinstance(n, ast.Name)}


def ag1(proj, rep):
    rep.rule('AG1', RULE_AG1)
    rep.rule('F3', RULE_F3)
    fi = proj.func(FN)
    m = fi.module
    rep.touch(m)
    entries = set(fi.params) - {'zero_eps'}
    n = 0
    # every `if np.any(mask):` branch
    for br in [s for s in fi.node.body if isinstance(s, ast.If)]:
        # local definitions in this branch
        defs = {}
        for s in br.body:
            if isinstance(s, ast.Assign) and isinstance(s.targets[0], ast.Name):
                defs.setdefault(s.targets[0].id, []).append(s.value)
        for s in br.body:
            if not (isinstance(s, ast.Assign) and isinstance(s.targets[0], ast.Subscript) and isinstance(s.targets[0].value, ast.Name)
                    and s.targets[0].value.id in FULL_CIRCLE):
                continue
            tgt = s.targets[0].value.id
            # closure of the stored value through branch-local names (latest definition before this statement)
            seen = set()
            work = [s.value]
            exprs = []
            while work:
                e = work.pop()
                exprs.append(e)
                for nm in _names(e):
                    if nm in defs and nm not in seen:
                        seen.add(nm)
                        work.extend(defs[nm])
            inv_calls = [c for e in exprs for c in ast.walk(e) if isinstance(c, ast.Call) and _ext(proj, m, c) in INV]
            atan2 = [c for e in exprs for c in ast.walk(e) if isinstance(c, ast.Call) and _ext(proj, m, c) == 'numpy.arctan2']
            if not inv_calls and not atan2:
                if isinstance(s.value, ast.Constant):
                    continue
                continue
            n += 1
            construct = f'{FN}[{ast.unparse(br.test)}][{tgt}]'
            if atan2 and not inv_calls:
                a = atan2[0]
                e0, e1 = _names(a.args[0]) & entries, _names(a.args[1]) & entries
                if e0 and e1 and e0 != e1:
                    rep.ok('AG1', construct, f'`{ast.unparse(a)[:60]}` uses two independent entries', m, s)
                else:
                    rep.violation('AG1', construct, f'`{ast.unparse(a)[:60]}`: both arguments depend on the same entry', m, s)
                continue
            # arccos: need a sign resolution from a second entry feeding the stored value
            used = set()
            for c in inv_calls:
                used |= _names(c.args[0]) & entries
            sign_entries = set()
            for e in exprs:
                for cmp_ in ast.walk(e):
                    if isinstance(cmp_, ast.Compare) and isinstance(cmp_.ops[0], (ast.Lt, ast.Gt, ast.LtE, ast.GtE)) \
                            and isinstance(cmp_.comparators[0], ast.Constant) and cmp_.comparators[0].value == 0:
                        sign_entries |= (_names(cmp_.left) & entries)
            extra = sign_entries - used
            if extra:
                rep.ok('AG1', construct, f'arccos of {sorted(used)} with the sign taken from {sorted(extra)}', m, s)
            else:
                rep.violation('AG1', construct, f'`{ast.unparse(s)[:70]}`: the angle is recovered from arccos of {sorted(used)} only; cos alone '
                              f'determines a full-circle angle up to sign (e.g. Rz(4.5) is returned as Rz(2*pi-4.5))', m, s)
    # F3: arccos of a bare entry
    for c in own_nodes(fi.node):
        if isinstance(c, ast.Call) and _ext(proj, m, c) in INV and c.args:
            a = c.args[0]
            n += 1
            t = ast.unparse(a).replace(' ', '')
            clipped = isinstance(a, ast.Call) and (_ext(proj, m, a) in ('numpy.clip',) or ast.unparse(a.func).endswith('.clip'))
            bare_entry = isinstance(a, ast.Name) and a.id in entries or (isinstance(a, ast.Subscript) and isinstance(a.value, ast.Name) and a.value.id in entries) \
                or (isinstance(a, ast.UnaryOp) and isinstance(a.operand, (ast.Name, ast.Subscript)))
            if clipped:
                rep.ok('F3', FN, f'`{ast.unparse(c)[:60]}` argument clipped', m, c)
            elif bare_entry:
                rep.violation('F3', FN, f'`{ast.unparse(c)[:60]}`: the bare matrix entry reaches 1+ulp for exactly degenerate rotations -> NaN', m, c)
            else:
                rep.violation('F3', FN, f'`{ast.unparse(c)[:70]}`: the un-clipped ratio evaluates to 1+ulp for axis-aligned Euler angles (alpha or gamma '
                              f'equal to 0 or pi) -> NaN', m, c)
    return n


# ------------------------------------------------------------------------------------------------ AG2
RULE_AG2 = ('AG2: the literal SU(2) -> SO(3) entry polynomials are the adjoint representation: with U = [[a, b], [-conj(b), conj(a)]] (the structure the '
            'function asserts) every entry (i,j) stacked by su2_to_so3 equals 1/2 Tr(sigma_i U sigma_j U^dagger) as a polynomial in a, conj(a), b, '
            'conj(b) (exact arithmetic over Q(i)); the seven entries su2_to_angle hands to the angle extractor equal the entries of that matrix '
            'at the (row, col) positions named by the extractor\'s parameters xRC; so3_to_angle passes np0[:, R, C] for parameter xRC.')


def _su2_env():
    from ..cpoly import CPoly
    return {k: CPoly.var(k) for k in ('a', 'aH', 'b', 'bH')}


def _adjoint_entries():
    """1/2 Tr(sigma_i U sigma_j U^dagger) for U = [[a, b], [-bH, aH]] as CPoly, i, j in 0..2"""
    from ..cpoly import CPoly
    v = _su2_env()
    one, zero, I = CPoly.const(1), CPoly.const(0), CPoly.const(1j)
    U = [[v['a'], v['b']], [-v['bH'], v['aH']]]
    Ud = [[v['aH'], -v['b']], [v['bH'], v['a']]]
    sig = [[[zero, one], [one, zero]], [[zero, -I], [I, zero]], [[one, zero], [zero, -one]]]

    def mm(A, B):
        return [[A[r][0] * B[0][c] + A[r][1] * B[1][c] for c in range(2)] for r in range(2)]
    half = CPoly.const(0.5)
    out = {}
    for i in range(3):
        for j in range(3):
            M = mm(mm(mm(sig[i], U), sig[j]), Ud)
            out[(i, j)] = (M[0][0] + M[1][1]) * half
    return out


def ag2(proj, rep):
    from ..cpoly import from_ast, Unsupported
    rep.rule('AG2', RULE_AG2)
    MODQ = 'numqi.group._lie'
    m = proj.mod(MODQ)
    rep.touch(m)
    n = 0
    truth = _adjoint_entries()
    env = _su2_env()
    # ---- structure facts: a = np0[:,0,0], b = np0[:,0,1], aH = a.conj(), bH = b.conj(); asserts U11 = conj(U00), U10 = -conj(U01)
    for q in ('su2_to_so3', 'su2_to_angle'):
        f = proj.func(f'{MODQ}.{q}')
        binds = {s.targets[0].id: ast.unparse(s.value).replace(' ', '') for s in f.node.body
                 if isinstance(s, ast.Assign) and isinstance(s.targets[0], ast.Name) and s.targets[0].id in ('a', 'aH', 'b', 'bH')}
        asserts = [ast.unparse(s.test).replace(' ', '') for s in f.node.body if isinstance(s, ast.Assert)]
        ok_b = binds == {'a': 'np0[:,0,0]', 'aH': 'a.conj()', 'b': 'np0[:,0,1]', 'bH': 'b.conj()'}
        ok_a = any('np0[:,0,0]-np0[:,1,1].conj()' in t for t in asserts) and any('np0[:,1,0]+np0[:,0,1].conj()' in t for t in asserts)
        n += 1
        if ok_b and ok_a:
            rep.ok('AG2', f'{f.qual}[structure]', 'a = U00, b = U01, U11 = conj(a), U10 = -conj(b) asserted', m, f.node, text=f'{q} structure')
        else:
            rep.undecided('AG2', f'{f.qual}[structure]', f'bindings {binds} / assertions not the recognised SU(2) parametrisation', m, f.node, text=f'{q} structure')
            n -= 1
            return n
    # ---- su2_to_so3 entries
    f = proj.func(f'{MODQ}.su2_to_so3')
    stack = next((c for c in ast.walk(f.node) if isinstance(c, ast.Call) and ast.unparse(c.func).endswith('stack') and c.args
                  and isinstance(c.args[0], ast.List) and len(c.args[0].elts) == 9), None)
    so3 = {}
    if stack is None:
        rep.undecided('AG2', f.qual, '9-entry stack not found', m, f.node, text='su2_to_so3 stack')
    else:
        for k, e in enumerate(stack.args[0].elts):
            i, j = divmod(k, 3)
            n += 1
            try:
                p = from_ast(e, env)
            except Unsupported as ex:
                rep.undecided('AG2', f'{f.qual}[{i},{j}]', f'entry not polynomial: {ex}', m, e)
                n -= 1
                continue
            so3[(i, j)] = p
            if p == truth[(i, j)]:
                rep.ok('AG2', f'{f.qual}[{i},{j}]', f'`{ast.unparse(e)}` = 1/2 Tr(s_{i} U s_{j} U^dag)', m, e)
            elif p == truth[(j, i)]:
                rep.violation('AG2', f'{f.qual}[{i},{j}]', f'`{ast.unparse(e)}` is the ({j},{i}) entry of the adjoint representation: the matrix is transposed here '
                              f'(an anti-homomorphism where it differs)', m, e)
            else:
                rep.violation('AG2', f'{f.qual}[{i},{j}]', f'`{ast.unparse(e)}` differs from 1/2 Tr(sigma_{i} U sigma_{j} U^dagger) as a polynomial in a, conj a, b, conj b', m, e)
    # ---- su2_to_angle entries against the parameter names of the extractor
    g = proj.func(f'{MODQ}._so3_to_angle_hf0')
    pos = []
    for p in g.all_params:
        if len(p) == 3 and p[0] == 'x' and p[1:].isdigit():
            pos.append((int(p[1]), int(p[2])))
    f = proj.func(f'{MODQ}.su2_to_angle')
    lst = next((s.value for s in f.node.body if isinstance(s, ast.Assign) and isinstance(s.value, ast.List) and len(s.value.elts) == len(pos)), None)
    call = next((c for c in ast.walk(f.node) if isinstance(c, ast.Call) and ast.unparse(c.func) == '_so3_to_angle_hf0'), None)
    if lst is None or call is None or not (call.args and isinstance(call.args[0], ast.Starred)):
        rep.undecided('AG2', f.qual, 'entry list / starred call of the extractor not found', m, f.node, text='su2_to_angle entries')
    else:
        for (i, j), e in zip(pos, lst.elts):
            n += 1
            try:
                p = from_ast(e, env)
            except Unsupported as ex:
                rep.undecided('AG2', f'{f.qual}[x{i}{j}]', f'entry not polynomial: {ex}', m, e)
                n -= 1
                continue
            if p == truth[(i, j)]:
                rep.ok('AG2', f'{f.qual}[x{i}{j}]', f'`{ast.unparse(e)}` = R[{i},{j}]', m, e)
            else:
                where = [k for k, v in truth.items() if v == p]
                rep.violation('AG2', f'{f.qual}[x{i}{j}]', f'`{ast.unparse(e)}` is handed to the extractor as x{i}{j} but it is '
                              f'{"R" + str(list(where[0])) if where else "not an entry"} of the SO(3) image (su2_to_so3 has `{ast.unparse(stack.args[0].elts[3 * i + j]) if stack is not None else "?"}` there)', m, e)
    # ---- so3_to_angle argument slots
    f = proj.func(f'{MODQ}.so3_to_angle')
    call = next((c for c in ast.walk(f.node) if isinstance(c, ast.Call) and ast.unparse(c.func) == '_so3_to_angle_hf0'), None)
    if call is None:
        rep.undecided('AG2', f.qual, 'extractor call not found', m, f.node, text='so3_to_angle slots')
    else:
        for (i, j), e in zip(pos, call.args):
            n += 1
            t = ast.unparse(e).replace(' ', '')
            if t == f'np0[:,{i},{j}]':
                rep.ok('AG2', f'{f.qual}[x{i}{j}]', f'{t} -> x{i}{j}', m, e)
            elif t.startswith('np0[:,'):
                rep.violation('AG2', f'{f.qual}[x{i}{j}]', f'`{t}` is passed in the slot of parameter x{i}{j}', m, e)
            else:
                rep.undecided('AG2', f'{f.qual}[x{i}{j}]', f'argument `{t}` not recognised', m, e)
                n -= 1
    rep.count('AG2.obligations', n)
    return n


# ------------------------------------------------------------------------------------------------ AG3
RULE_AG3 = ('AG3: Euler-angle constructor and extractor agree symbolically. (a) the nine literal entries of angle_to_so3 equal Rz(alpha) Ry(beta) Rz(gamma) as '
            'polynomials in cos/sin of the three angles; (b) the extractor reads beta from an entry that equals cos(beta); in the beta~0 (beta~pi) branch the two '
            'arctan2 arguments equal sin and cos of alpha+gamma (alpha-gamma) once cos(beta)=+1 (-1), sin(beta)=0 are substituted, and the stored '
            '(alpha, gamma) reproduce that combination; in the generic branch each arccos argument times sin(beta) equals sin(beta)*cos(angle) and the '
            'sign-test entry equals sin(beta)*sin(angle) for the angle being stored.')


def _trig_env():
    from ..cpoly import CPoly
    return {k: CPoly.var(k) for k in ('ca', 'sa', 'cb', 'sb', 'cg', 'sg')}


def _subst(p, val):
    """substitute constants for variables in a CPoly: val = {var: Fraction-like}"""
    from ..cpoly import CPoly
    from fractions import Fraction
    out = CPoly()
    for k, (a, b) in p.t.items():
        ca, cb_ = a, b
        rest = []
        for n, e in k:
            if n in val:
                f = Fraction(val[n]) ** e
                ca, cb_ = ca * f, cb_ * f
            else:
                rest.append((n, e))
        out = out + CPoly({tuple(rest): (ca, cb_)})
    return out


def ag3(proj, rep):
    from ..cpoly import CPoly, from_ast, Unsupported
    rep.rule('AG3', RULE_AG3)
    MODQ = 'numqi.group._lie'
    m = proj.mod(MODQ)
    n = 0
    v = _trig_env()
    one, zero = CPoly.const(1), CPoly.const(0)

    def rz(c, s):
        return [[c, -s, zero], [s, c, zero], [zero, zero, one]]

    def ry(c, s):
        return [[c, zero, s], [zero, one, zero], [-s, zero, c]]

    def mm(A, B):
        return [[A[r][0] * B[0][c] + A[r][1] * B[1][c] + A[r][2] * B[2][c] for c in range(3)] for r in range(3)]
    truth = mm(mm(rz(v['ca'], v['sa']), ry(v['cb'], v['sb'])), rz(v['cg'], v['sg']))
    f = proj.func(f'{MODQ}.angle_to_so3')
    binds = {s.targets[0].id: ast.unparse(s.value).replace(' ', '') for s in f.node.body
             if isinstance(s, ast.Assign) and isinstance(s.targets[0], ast.Name) and s.targets[0].id in v}
    want = {'ca': 'np.cos(alpha)', 'sa': 'np.sin(alpha)', 'cb': 'np.cos(beta)', 'sb': 'np.sin(beta)', 'cg': 'np.cos(gamma)', 'sg': 'np.sin(gamma)'}
    n += 1
    if binds != want:
        rep.undecided('AG3', f'{f.qual}[bindings]', f'cos/sin bindings {binds} not recognised', m, f.node, text='trig bindings')
        return n - 1
    rep.ok('AG3', f'{f.qual}[bindings]', 'ca..sg are cos/sin of alpha, beta, gamma', m, f.node, text='trig bindings')
    stack = next((c for c in ast.walk(f.node) if isinstance(c, ast.Call) and ast.unparse(c.func).endswith('stack') and c.args
                  and isinstance(c.args[0], ast.List) and len(c.args[0].elts) == 9), None)
    if stack is None:
        rep.undecided('AG3', f.qual, '9-entry stack not found', m, f.node, text='angle_to_so3 stack')
        return n
    R = {}
    for k, e in enumerate(stack.args[0].elts):
        i, j = divmod(k, 3)
        n += 1
        try:
            p = from_ast(e, v)
        except Unsupported as ex:
            rep.undecided('AG3', f'{f.qual}[{i},{j}]', f'entry not polynomial: {ex}', m, e)
            n -= 1
            continue
        R[(i, j)] = p
        if p == truth[i][j]:
            rep.ok('AG3', f'{f.qual}[{i},{j}]', f'`{ast.unparse(e)}` = (Rz(alpha) Ry(beta) Rz(gamma))[{i},{j}]', m, e)
        else:
            rep.violation('AG3', f'{f.qual}[{i},{j}]', f'`{ast.unparse(e)}` is not the ({i},{j}) entry of Rz(alpha) Ry(beta) Rz(gamma): the matrix is not a rotation '
                          f'with these Euler angles / does not match the extractor', m, e)
    if len(R) != 9:
        return n
    # ---- extractor
    g = proj.func(f'{MODQ}._so3_to_angle_hf0')

    def entry(e):
        """CPoly of +-xRC or xRC[mask] expressions"""
        sign = 1
        while isinstance(e, ast.UnaryOp) and isinstance(e.op, ast.USub):
            sign, e = -sign, e.operand
        if isinstance(e, ast.Subscript):
            e = e.value
        if isinstance(e, ast.Name) and len(e.id) == 3 and e.id[0] == 'x' and e.id[1:].isdigit():
            p = R[(int(e.id[1]), int(e.id[2]))]
            return p if sign > 0 else -p
        return None
    # beta
    n += 1
    bst = next((s for s in g.node.body if isinstance(s, ast.Assign) and isinstance(s.targets[0], ast.Name) and s.targets[0].id == 'beta'), None)
    bent = None
    if bst is not None:
        for x in ast.walk(bst.value):
            if isinstance(x, ast.Name) and x.id.startswith('x') and x.id[1:].isdigit():
                bent = R[(int(x.id[1]), int(x.id[2]))]
    if bent is None or 'arccos' not in ast.unparse(bst.value):
        rep.undecided('AG3', f'{g.qual}[beta]', 'beta = arccos(entry) not found', m, g.node, text='beta')
        n -= 1
    elif bent == v['cb']:
        rep.ok('AG3', f'{g.qual}[beta]', 'beta = arccos(entry equal to cos(beta))', m, bst)
    else:
        rep.violation('AG3', f'{g.qual}[beta]', f'`{ast.unparse(bst)[:70]}` reads an entry that is not cos(beta) in angle_to_so3', m, bst)
    masks = {}
    for s in g.node.body:
        if isinstance(s, ast.Assign) and isinstance(s.targets[0], ast.Name) and isinstance(s.value, ast.Compare):
            t = ast.unparse(s.value).replace(' ', '')
            if t.startswith('beta<'):
                masks[s.targets[0].id] = +1
            elif t.startswith('beta>'):
                masks[s.targets[0].id] = -1
    sin_sum = {+1: v['sa'] * v['cg'] + v['ca'] * v['sg'], -1: v['sa'] * v['cg'] - v['ca'] * v['sg']}
    cos_sum = {+1: v['ca'] * v['cg'] - v['sa'] * v['sg'], -1: v['ca'] * v['cg'] + v['sa'] * v['sg']}
    for blk in [s for s in g.node.body if isinstance(s, ast.If)]:
        from .masks import _any_mask
        mk = _any_mask(blk.test)
        if mk in masks:
            sgn = masks[mk]
            at = next((c for c in ast.walk(blk) if isinstance(c, ast.Call) and ast.unparse(c.func).endswith('arctan2')), None)
            n += 1
            if at is None:
                rep.undecided('AG3', f'{g.qual}[{mk}]', 'arctan2 not found in the degenerate branch', m, blk)
                n -= 1
                continue
            y, x = entry(at.args[0]), entry(at.args[1])
            if y is None or x is None:
                rep.undecided('AG3', f'{g.qual}[{mk}]', 'arctan2 arguments are not +-matrix entries', m, at)
                n -= 1
                continue
            sub = {'cb': sgn, 'sb': 0}
            ys, xs = _subst(y, sub), _subst(x, sub)
            name = 'alpha+gamma' if sgn > 0 else 'alpha-gamma'
            if ys == sin_sum[sgn] and xs == cos_sum[sgn]:
                rep.ok('AG3', f'{g.qual}[{mk}]', f'arctan2 arguments are (sin, cos) of {name} at cos(beta)={sgn:+d}', m, at)
            else:
                rep.violation('AG3', f'{g.qual}[{mk}]', f'`{ast.unparse(at)}`: at cos(beta)={sgn:+d}, sin(beta)=0 the arguments are not (sin({name}), cos({name})) of the '
                              f'matrix built by angle_to_so3: the recovered combination has the wrong sign / entry', m, at)
            # stored combination: alpha = ca * T, gamma = cg * T with T the recovered angle (arctan2 % 2pi); the name holding it may be scaled
            n += 1
            from fractions import Fraction

            def lin(e, tname):
                """coefficient c with e == c * <tname> (None if not of that form)"""
                if isinstance(e, ast.Name) and e.id == tname:
                    return Fraction(1)
                if isinstance(e, ast.Constant) and e.value == 0:
                    return Fraction(0)
                if isinstance(e, ast.UnaryOp) and isinstance(e.op, ast.USub):
                    c = lin(e.operand, tname)
                    return None if c is None else -c
                if isinstance(e, ast.BinOp) and isinstance(e.op, ast.Div) and isinstance(e.right, ast.Constant) and isinstance(e.right.value, (int, float)) and e.right.value:
                    c = lin(e.left, tname)
                    return None if c is None else c / Fraction(e.right.value)
                if isinstance(e, ast.BinOp) and isinstance(e.op, ast.Mult):
                    for a, b in ((e.left, e.right), (e.right, e.left)):
                        if isinstance(a, ast.Constant) and isinstance(a.value, (int, float)):
                            c = lin(b, tname)
                            return None if c is None else c * Fraction(a.value).limit_denominator(1 << 20)
                return None
            # the statement that holds the arctan2 and the scale it applies
            hold = at
            while not isinstance(hold, ast.stmt):
                hold = hold._parent
            scale = None
            tname = None
            if isinstance(hold, ast.Assign) and isinstance(hold.targets[0], ast.Name):
                tname = hold.targets[0].id
                # replace the `arctan2(..) % (2*pi)` subtree by a marker name and read the linear coefficient
                class Mark(ast.NodeTransformer):
                    def visit_BinOp(self, node):
                        if isinstance(node.op, ast.Mod) and 'arctan2' in ast.unparse(node.left):
                            return ast.Name(id='__T__', ctx=ast.Load())
                        return self.generic_visit(node)

                    def visit_Call(self, node):
                        if ast.unparse(node.func).endswith('arctan2'):
                            return ast.Name(id='__T__', ctx=ast.Load())
                        return self.generic_visit(node)
                marked = Mark().visit(ast.parse(ast.unparse(hold.value), mode='eval').body)
                scale = lin(marked, '__T__')
            coef = {}
            for s in blk.body:
                if isinstance(s, ast.Assign) and isinstance(s.targets[0], ast.Subscript) and isinstance(s.targets[0].value, ast.Name) \
                        and s.targets[0].value.id in ('alpha', 'gamma') and tname is not None:
                    coef[s.targets[0].value.id] = lin(s.value, tname)
            if scale is None or set(coef) != {'alpha', 'gamma'} or None in coef.values():
                rep.undecided('AG3', f'{g.qual}[{mk} store]', 'stored angles are not recognisably multiples of the recovered angle', m, blk)
                n -= 1
            elif (coef['alpha'] + sgn * coef['gamma']) * scale == 1:
                rep.ok('AG3', f'{g.qual}[{mk} store]', f'stored angles satisfy {name} = recovered angle', m, blk)
            else:
                rep.violation('AG3', f'{g.qual}[{mk} store]', f'stored alpha = {coef["alpha"] * scale}*t, gamma = {coef["gamma"] * scale}*t do not give {name} = t: the rebuilt '
                              f'matrix differs', m, blk)
        elif mk is not None:
            # generic branch: pairs (arccos argument, sign-test entry) followed by a store into gamma / alpha
            pend = {}
            for s in blk.body:
                if isinstance(s, ast.Assign) and isinstance(s.targets[0], ast.Name):
                    pend[s.targets[0].id] = s.value
                if isinstance(s, ast.Assign) and isinstance(s.targets[0], ast.Subscript) and isinstance(s.targets[0].value, ast.Name) \
                        and s.targets[0].value.id in ('alpha', 'gamma'):
                    ang = s.targets[0].value.id
                    c_, s_ = (v['ca'], v['sa']) if ang == 'alpha' else (v['cg'], v['sg'])
                    names = [x.id for x in ast.walk(s.value) if isinstance(x, ast.Name) and x.id in pend]
                    acos = next((pend[k] for k in names if 'arccos' in ast.unparse(pend[k])), None)
                    test = next((pend[k] for k in names if isinstance(pend[k], ast.Compare)), None)
                    n += 1
                    if acos is None or test is None:
                        rep.undecided('AG3', f'{g.qual}[generic {ang}]', 'arccos / sign-test pair not found', m, s)
                        n -= 1
                        continue
                    ce = next((entry(x) for x in ast.walk(acos) if isinstance(x, (ast.UnaryOp, ast.Subscript)) and entry(x) is not None), None)
                    se = next((entry(x) for x in ast.walk(test) if isinstance(x, (ast.UnaryOp, ast.Subscript)) and entry(x) is not None), None)
                    lt = isinstance(test.ops[0], ast.Lt)
                    if ce is None or se is None:
                        rep.undecided('AG3', f'{g.qual}[generic {ang}]', 'entries of the arccos / sign test not recognised', m, s)
                        n -= 1
                    elif ce == v['sb'] * c_ and se == v['sb'] * s_ and lt:
                        rep.ok('AG3', f'{g.qual}[generic {ang}]', f'arccos entry = sin(beta) cos({ang}), sign entry = sin(beta) sin({ang})', m, s)
                    else:
                        rep.violation('AG3', f'{g.qual}[generic {ang}]', f'the entries used for {ang} are not (sin(beta) cos({ang}), sin(beta) sin({ang})) of the '
                                      f'matrix built by angle_to_so3 (wrong entry or sign): the extracted {ang} does not rebuild the matrix', m, s)
    rep.count('AG3.obligations', n)
    return n


# ------------------------------------------------------------------------------------------------ AG4
RULE_AG4 = ('AG4: the double cover is consistent: su2_to_so3 applied symbolically to the literal entries of angle_to_su2(alpha, beta, gamma) equals the literal '
            'entries of angle_to_so3(alpha, beta, gamma), as polynomials in p = e^{i alpha/2}, q = e^{i gamma/2}, c = cos(beta/2), s = sin(beta/2) modulo '
            'p*conj(p) = q*conj(q) = 1 and c^2 + s^2 = 1 (exact arithmetic).')


def _reduce_unit(p):
    """normal form modulo p*pi=1, q*qi=1, c2^2 = 1 - s2^2"""
    from ..cpoly import CPoly
    changed = True
    cur = p
    while changed:
        changed = False
        out = CPoly()
        for k, coef in cur.t.items():
            d = dict(k)
            did = False
            for a, b in (('p', 'pi'), ('q', 'qi')):
                mpow = min(d.get(a, 0), d.get(b, 0))
                if mpow:
                    d[a] -= mpow
                    d[b] -= mpow
                    did = True
            d = {n: e for n, e in d.items() if e}
            if d.get('c2', 0) >= 2:
                d2 = dict(d)
                d2['c2'] -= 2
                d2 = {n: e for n, e in d2.items() if e}
                d3 = dict(d2)
                d3['s2'] = d3.get('s2', 0) + 2
                out = out + CPoly({tuple(sorted(d2.items())): coef}) - CPoly({tuple(sorted(d3.items())): coef})
                changed = True
                continue
            if did:
                changed = True
            out = out + CPoly({tuple(sorted(d.items())): coef})
        cur = out
    return cur


def _compose(p, sub):
    """substitute CPoly values for variables"""
    from ..cpoly import CPoly
    out = CPoly()
    for k, coef in p.t.items():
        term = CPoly({(): coef})
        for nme, e in k:
            for _ in range(e):
                term = term * sub[nme]
        out = out + term
    return out


def ag4(proj, rep):
    from ..cpoly import CPoly, from_ast, Unsupported
    from fractions import Fraction
    rep.rule('AG4', RULE_AG4)
    MODQ = 'numqi.group._lie'
    m = proj.mod(MODQ)
    f = proj.func(f'{MODQ}.angle_to_su2')
    P = {k: CPoly.var(k) for k in ('p', 'pi', 'q', 'qi', 'c2', 's2')}
    binds = {s.targets[0].id: ast.unparse(s.value).replace(' ', '') for s in f.node.body if isinstance(s, ast.Assign) and isinstance(s.targets[0], ast.Name)}
    want = {'exp_apg': 'np.exp(0.5j*(alpha+gamma))', 'exp_amg': 'np.exp(0.5j*(alpha-gamma))', 'cb': 'np.cos(beta/2)', 'sb': 'np.sin(beta/2)'}
    if any(binds.get(k) != w for k, w in want.items()):
        rep.undecided('AG4', f.qual, 'half-angle bindings not recognised', m, f.node, text='half-angle bindings')
        return 0
    env = {'exp_apg': P['p'] * P['q'], 'exp_apg_conj': P['pi'] * P['qi'], 'exp_amg': P['p'] * P['qi'], 'exp_amg_conj': P['pi'] * P['q'],
           'cb': P['c2'], 'sb': P['s2']}

    class Conj(ast.NodeTransformer):
        def visit_Call(self, n):
            n = self.generic_visit(n)
            if isinstance(n.func, ast.Attribute) and n.func.attr == 'conj' and isinstance(n.func.value, ast.Name) and not n.args:
                return ast.Name(id=n.func.value.id + '_conj', ctx=ast.Load())
            return n
    stack = next((c for c in ast.walk(f.node) if isinstance(c, ast.Call) and ast.unparse(c.func).endswith('stack') and c.args
                  and isinstance(c.args[0], ast.List) and len(c.args[0].elts) == 4), None)
    if stack is None:
        rep.undecided('AG4', f.qual, '4-entry stack not found', m, f.node, text='angle_to_su2 stack')
        return 0
    try:
        U = [from_ast(Conj().visit(ast.parse(ast.unparse(e), mode='eval').body), env) for e in stack.args[0].elts]
    except Unsupported as ex:
        rep.undecided('AG4', f.qual, f'entry not polynomial: {ex}', m, stack)
        return 0
    n = 0

    def cj(p):
        return _compose(p, {'p': P['pi'], 'pi': P['p'], 'q': P['qi'], 'qi': P['q'], 'c2': P['c2'], 's2': P['s2']}).__class__(
            {k: (a, -b) for k, (a, b) in _compose(p, {'p': P['pi'], 'pi': P['p'], 'q': P['qi'], 'qi': P['q'], 'c2': P['c2'], 's2': P['s2']}).t.items()})
    # structure the converters assert: U11 = conj(U00), U10 = -conj(U01)
    n += 1
    if _reduce_unit(U[3] - cj(U[0])).is_zero() and _reduce_unit(U[2] + cj(U[1])).is_zero():
        rep.ok('AG4', f'{f.qual}[structure]', 'U11 = conj(U00), U10 = -conj(U01)', m, stack)
    else:
        rep.violation('AG4', f'{f.qual}[structure]', 'the literal entries are not of the form [[a, b], [-conj b, conj a]]: the matrix is not in SU(2) '
                      '(su2_to_angle / su2_to_so3 assert this form)', m, stack)
        return n
    # su2_to_so3 entries in a, aH, b, bH
    g = proj.func(f'{MODQ}.su2_to_so3')
    st2 = next((c for c in ast.walk(g.node) if isinstance(c, ast.Call) and ast.unparse(c.func).endswith('stack') and c.args
                and isinstance(c.args[0], ast.List) and len(c.args[0].elts) == 9), None)
    h = proj.func(f'{MODQ}.angle_to_so3')
    st3 = next((c for c in ast.walk(h.node) if isinstance(c, ast.Call) and ast.unparse(c.func).endswith('stack') and c.args
                and isinstance(c.args[0], ast.List) and len(c.args[0].elts) == 9), None)
    if st2 is None or st3 is None:
        rep.undecided('AG4', MODQ, 'su2_to_so3 / angle_to_so3 stacks not found', m, f.node, text='stacks')
        return n
    sub_su2 = {'a': U[0], 'b': U[1], 'aH': cj(U[0]), 'bH': cj(U[1])}
    half, I = CPoly.const(Fraction(1, 2)), CPoly.const(1j)
    minus_half_i = CPoly.const(-0.5j)
    sub_trig = {'ca': (P['p'] * P['p'] + P['pi'] * P['pi']) * half, 'sa': (P['p'] * P['p'] - P['pi'] * P['pi']) * minus_half_i,
                'cg': (P['q'] * P['q'] + P['qi'] * P['qi']) * half, 'sg': (P['q'] * P['q'] - P['qi'] * P['qi']) * minus_half_i,
                'cb': P['c2'] * P['c2'] - P['s2'] * P['s2'], 'sb': P['c2'] * P['s2'] * CPoly.const(2)}
    e1 = _su2_env()
    e2 = _trig_env()
    for k in range(9):
        i, j = divmod(k, 3)
        n += 1
        try:
            lhs = _reduce_unit(_compose(from_ast(st2.args[0].elts[k], e1), sub_su2))
            rhs = _reduce_unit(_compose(from_ast(st3.args[0].elts[k], e2), sub_trig))
        except Unsupported as ex:
            rep.undecided('AG4', f'{MODQ}[{i},{j}]', f'entry not polynomial: {ex}', m, st2.args[0].elts[k])
            n -= 1
            continue
        if lhs == rhs:
            rep.ok('AG4', f'{MODQ}[{i},{j}]', 'su2_to_so3(angle_to_su2(angles)) = angle_to_so3(angles)', m, st3.args[0].elts[k])
        else:
            rep.violation('AG4', f'{MODQ}[{i},{j}]', f'entry ({i},{j}): su2_to_so3 of the literal angle_to_su2 matrix differs from the literal angle_to_so3 entry '
                          f'`{ast.unparse(st3.args[0].elts[k])}`: the two conventions (Euler order / sign / half angle) disagree, so so3 <-> su2 '
                          f'conversions do not commute with the angle maps', m, st3.args[0].elts[k])
    rep.count('AG4.obligations', n)
    return n


# ------------------------------------------------------------------------------------------------ AG5
RULE_AG5 = ('AG5: the gimbal-lock threshold `zero_eps` that is compared with beta = arccos(x22) is not tighter than the resolution of arccos near 1 '
            '(sqrt(2*machine eps) ~ 2e-8): every public default that reaches `beta < zero_eps` is >= 5e-8. With a tighter default an exactly degenerate '
            'rotation whose x22 rounds to 1 - 1ulp takes the generic branch and alpha+gamma is lost.')


def ag5(proj, rep):
    rep.rule('AG5', RULE_AG5)
    MODQ = 'numqi.group._lie'
    m = proj.mod(MODQ)
    n = 0
    for fi in [f for f in proj.funcs.values() if f.module is m and 'zero_eps' in f.all_params]:
        d = fi.defaults.get('zero_eps')
        if d is None:
            continue
        # does it reach the gimbal test? (passes zero_eps on, or is the extractor itself)
        reaches = any(isinstance(c, ast.Call) and any(isinstance(a, ast.Name) and a.id == 'zero_eps' for a in list(c.args) + [k.value for k in c.keywords])
                      and ast.unparse(c.func) in ('_so3_to_angle_hf0', 'so3_to_angle', 'su2_to_angle') for c in ast.walk(fi.node))
        if not reaches:
            continue
        n += 1
        try:
            v = float(ast.literal_eval(d))
        except Exception:
            rep.undecided('AG5', fi.qual, f'default `{ast.unparse(d)}` not literal', m, fi.node, text=f'{fi.qual} zero_eps')
            n -= 1
            continue
        if v >= 5e-8:
            rep.ok('AG5', fi.qual, f'zero_eps default {v:g} >= arccos resolution', m, fi.node, text=f'{fi.qual} zero_eps')
        else:
            rep.violation('AG5', fi.qual, f'default zero_eps={v:g} reaches the gimbal test `beta < zero_eps` with beta = arccos(x22): arccos cannot resolve angles below '
                          f'~2e-8, so exactly degenerate rotations whose x22 rounds to 1-1ulp (beta ~ 1.5e-8) are treated as generic and alpha+gamma is lost', m, fi.node,
                          text=f'{fi.qual} zero_eps')
    rep.count('AG5.defaults', n)
    return n
