"""F1 (finite x·log x) and T1 (tolerance on certificate comparisons)."""
import ast
from ..project import dotted_parts, norm_text, AnalysisError
from ..callgraph import resolve_callee, scope_chain, local_names
from ..dataflow import reaching_defs, own_nodes, assignments, return_exprs, is_param, comp_binding, walk_pruned

RULE_F1 = ('F1: wherever a value E is multiplied (or dot/einsum-contracted) with log(E), E is bounded away from 0 by a '
           'recognised guard on every reaching definition: maximum(eps, .) / clip / clamp / E + eps / mask filter '
           'E = E[E > eps] / enclosing where(); otherwise 0*log(0) = NaN is reachable. (scipy.special.entr/xlogy need no guard.)')

LOG_FUNCS = {'numpy.log', 'torch.log', 'math.log', 'numpy.log2', 'torch.log2', 'numpy.log10'}
GUARD_MAX = {'numpy.maximum', 'torch.maximum', 'numpy.fmax', 'torch.clamp_min', 'torch.fmax'}
GUARD_CLIP = {'numpy.clip', 'torch.clip', 'torch.clamp'}
CONTRACT = {'numpy.dot', 'numpy.vdot', 'numpy.einsum', 'torch.dot', 'torch.vdot', 'torch.einsum',
            'opt_einsum.contract', 'numpy.inner', 'numpy.sum', 'torch.sum'}


def _ext(proj, m, call):
    r = resolve_callee(proj, m, call)
    return r.qual if r.kind == 'external' else None


def _positive_literalish(e):
    """An expression that is syntactically a positive lower bound: non-zero positive literal or a name/attr
    (eps, self._eps, np.finfo(..).eps ...). 0 is not."""
    if isinstance(e, ast.Constant):
        return isinstance(e.value, (int, float)) and e.value > 0
    if isinstance(e, (ast.Name, ast.Attribute)):
        return True
    if isinstance(e, ast.Call):
        return True      # torch.tensor(eps), np.finfo(..).eps
    return False


def guard_kind(proj, m, e):
    """Is expression `e` bounded away from zero by construction?  Returns a string or None."""
    if isinstance(e, ast.Call):
        q = _ext(proj, m, e)
        if q in GUARD_MAX and len(e.args) == 2:
            # maximum(x, 0) is NOT a guard; maximum(x, eps) / maximum(eps, x) is
            if not any(_is_zero(a) for a in e.args):
                return 'maximum(eps,.)'
            return None
        if q in GUARD_CLIP:
            lo = e.args[1] if len(e.args) >= 2 else None
            for k in e.keywords:
                if k.arg in ('min', 'a_min'):
                    lo = k.value
            if lo is not None and not _is_zero(lo) and not (isinstance(lo, ast.Constant) and lo.value is None):
                return 'clip'
            return None
        if q in ('numpy.where', 'torch.where'):
            return 'where'
        # method form x.clip(lo, hi) / x.clamp(min=..)
        if isinstance(e.func, ast.Attribute) and e.func.attr in ('clip', 'clamp', 'clamp_min'):
            lo = e.args[0] if e.args else None
            for k in e.keywords:
                if k.arg in ('min', 'a_min'):
                    lo = k.value
            if lo is not None and not _is_zero(lo):
                return 'clip'
        return None
    if isinstance(e, ast.BinOp) and isinstance(e.op, ast.Add):
        for a in (e.left, e.right):
            if isinstance(a, ast.Constant) and isinstance(a.value, float) and 0 < a.value < 1e-2:
                return '+eps'
            if isinstance(a, (ast.Name, ast.Attribute)) and 'eps' in ast.unparse(a).lower():
                return '+eps'
        return None
    if isinstance(e, ast.Subscript):
        # mask filter on itself: E[E > eps]
        s = e.slice
        if isinstance(s, ast.Compare) and len(s.ops) == 1 and isinstance(s.ops[0], (ast.Gt, ast.GtE)) \
                and ast.dump(s.left) == ast.dump(e.value):
            c = s.comparators[0]
            if isinstance(s.ops[0], ast.Gt) or not _is_zero(c):
                if not (isinstance(s.ops[0], ast.GtE) and _is_zero(c)):
                    return 'mask-filter'
        return None
    return None


def _is_zero(e):
    return isinstance(e, ast.Constant) and isinstance(e.value, (int, float)) and e.value == 0


def _intlike_param_expr(func_node, e):
    """dim-1, dim, d*d ... built only from parameters named like dimensions and int literals."""
    for n in ast.walk(e):
        if isinstance(n, ast.Name):
            if not is_param(func_node, n.id):
                return False
        elif isinstance(n, ast.Constant):
            if not isinstance(n.value, int):
                return False
        elif not isinstance(n, (ast.BinOp, ast.operator, ast.expr_context, ast.UnaryOp, ast.unaryop)):
            return False
    return True


def _strip(e):
    """Strip plumbing that does not change values: .reshape(..), .real, .view(..), .flatten()."""
    while True:
        if isinstance(e, ast.Call) and isinstance(e.func, ast.Attribute) and e.func.attr in ('reshape', 'view', 'flatten', 'ravel', 'copy', 'clone') :
            e = e.func.value
        elif isinstance(e, ast.Attribute) and e.attr in ('real',):
            e = e.value
        else:
            return e


def _log_argument(logcall, q):
    """the quantity whose logarithm is taken: X for log(X), 1 + X (or 1 - Y for X = -Y) for log1p(X)"""
    X = logcall.args[0]
    if q and q.endswith('log1p'):
        if isinstance(X, ast.UnaryOp) and isinstance(X.op, ast.USub):
            return ast.BinOp(left=ast.Constant(value=1), op=ast.Sub(), right=X.operand)
        return ast.BinOp(left=ast.Constant(value=1), op=ast.Add(), right=X)
    return X


def _partner(proj, m, logcall, X=None):
    """If log(X) is multiplied/contracted with X itself return a description, else None."""
    X = logcall.args[0] if X is None else X
    xd = ast.dump(_strip(X))
    node = logcall
    p = getattr(node, '_parent', None)
    # climb through unary minus / reshape plumbing
    while True:
        if isinstance(p, ast.UnaryOp):
            node, p = p, getattr(p, '_parent', None)
        elif isinstance(p, ast.Attribute) and p.attr in ('reshape', 'view', 'real') and isinstance(getattr(p, '_parent', None), ast.Call) \
                and getattr(p, '_parent').func is p:
            node = getattr(p, '_parent')
            p = getattr(node, '_parent', None)
        else:
            break
    if isinstance(p, ast.BinOp) and isinstance(p.op, ast.Mult):
        # flatten the product chain
        top = p
        while isinstance(getattr(top, '_parent', None), ast.BinOp) and isinstance(top._parent.op, ast.Mult):
            top = top._parent
        factors = []

        def fl(e):
            if isinstance(e, ast.BinOp) and isinstance(e.op, ast.Mult):
                fl(e.left)
                fl(e.right)
            elif isinstance(e, ast.UnaryOp):
                fl(e.operand)
            else:
                factors.append(e)
        fl(top)
        for f in factors:
            if f is not node and ast.dump(_strip(f)) == xd:
                return 'product'
        return None
    if isinstance(p, ast.Call) and node in p.args:
        q = _ext(proj, m, p)
        if q in CONTRACT:
            for a in p.args:
                if a is not node and ast.dump(_strip(a)) == xd:
                    return q
    return None


def f1(proj, rep, modules):
    rep.rule('F1', RULE_F1)
    nlog = 0
    npat = 0
    for fi in proj.iter_functions(modules):
        m = fi.module
        for n in own_nodes(fi.node):
            if not isinstance(n, ast.Call) or len(n.args) < 1:
                continue
            q = _ext(proj, m, n)
            if q not in LOG_FUNCS and q not in ('numpy.log1p', 'torch.log1p', 'math.log1p'):
                continue
            nlog += 1
            X = _log_argument(n, q)
            g = guard_kind(proj, m, X) if X is n.args[0] else None
            if g:
                rep.ok('F1', fi.qual, f'log argument guarded in place by {g}', m, n)
                continue
            part = _partner(proj, m, n, X)
            if part is None:
                continue
            npat += 1
            status, why = _guarded(proj, m, fi.node, X, n)
            if status == 'ok':
                rep.ok('F1', fi.qual, f'{ast.unparse(X)}*log({ast.unparse(X)}) via {part}: {why}', m, n)
            elif status == 'bad':
                rep.violation('F1', fi.qual,
                              f'`{ast.unparse(X)}` is contracted with log of itself ({part}) but {why}; '
                              f'0*log(0)=NaN when it underflows to 0', m, n)
            else:
                rep.undecided('F1', fi.qual, f'{ast.unparse(X)}: {why}', m, n)
    rep.count('F1.log_sites', nlog)
    rep.count('F1.xlogx_sites', npat)
    return nlog


def _guarded(proj, m, func_node, X, at):
    Xs = _strip(X)
    lo, hi = interval(proj, m, func_node, Xs, at)
    if lo > 0:
        return 'ok', f'bounded below by {lo:g} (interval analysis of its definition)'
    if isinstance(Xs, ast.Name):
        defs = reaching_defs(func_node, Xs.id, at)
        if not defs:
            return 'und', 'no reaching definition found'
        bad = []
        kinds = []
        for v, st, path in defs:
            if v == 'param':
                bad.append('the parameter itself reaches the use unguarded')
                continue
            if path is not None:
                bad.append(f'bound by `{norm_text(st)[:80]}` (no guard)')
                continue
            g = guard_kind(proj, m, v)
            if g:
                kinds.append(g)
            else:
                bad.append(f'reaching definition `{norm_text(st)[:100]}` (line {st.lineno}) is not a recognised guard')
        if bad:
            return 'bad', bad[0]
        return 'ok', 'guards: ' + ','.join(sorted(set(kinds)))
    if _intlike_param_expr(func_node, Xs):
        return 'ok', 'integer-valued parameter expression'
    if isinstance(Xs, ast.BinOp) and isinstance(Xs.op, ast.Sub) and isinstance(Xs.left, ast.Constant) and Xs.left.value == 1:
        # 1 - N : bounded away from 0 only if N is two-sided clipped
        N = _strip(Xs.right)
        if isinstance(N, ast.Name):
            defs = reaching_defs(func_node, N.id, at)
            ok = bool(defs)
            for v, st, path in defs:
                if v == 'param' or path is not None or not _two_sided_clip(proj, m, v):
                    ok = False
            if ok:
                return 'ok', f'1-{N.id} with {N.id} two-sided clipped'
            return 'bad', f'`1-{N.id}` has no upper guard on {N.id} (only a two-sided clip bounds 1-{N.id} away from 0)'
    return 'bad', f'`{ast.unparse(X)}` is an unguarded expression'


def _two_sided_clip(proj, m, e):
    if not isinstance(e, ast.Call):
        return False
    q = _ext(proj, m, e)
    if q in GUARD_CLIP:
        n = len(e.args) + len([k for k in e.keywords if k.arg in ('min', 'max', 'a_min', 'a_max')])
        return n >= 3 and guard_kind(proj, m, e) == 'clip'
    return False


# ----------------------------------------------------------------- tiny interval analysis
INF = float('inf')


def interval(proj, m, func_node, e, at, depth=0):
    """Sound (lo, hi) enclosure of a real-valued expression, assuming real arithmetic on real operands.
    Unknown -> (-inf, inf)."""
    top = (-INF, INF)
    if depth > 6:
        return top
    if isinstance(e, ast.Constant) and isinstance(e.value, (int, float)) and not isinstance(e.value, bool):
        return (float(e.value), float(e.value))
    if isinstance(e, ast.UnaryOp) and isinstance(e.op, ast.USub):
        lo, hi = interval(proj, m, func_node, e.operand, at, depth + 1)
        return (-hi, -lo)
    if isinstance(e, ast.Name):
        defs = reaching_defs(func_node, e.id, at)
        if len(defs) == 1 and defs[0][0] != 'param' and defs[0][2] is None:
            return interval(proj, m, func_node, defs[0][0], defs[0][1], depth + 1)
        return top
    if isinstance(e, ast.BinOp):
        a = interval(proj, m, func_node, e.left, at, depth + 1)
        b = interval(proj, m, func_node, e.right, at, depth + 1)
        if isinstance(e.op, ast.Add):
            return (a[0] + b[0], a[1] + b[1])
        if isinstance(e.op, ast.Sub):
            return (a[0] - b[1], a[1] - b[0])
        if isinstance(e.op, ast.Mult):
            if ast.dump(e.left) == ast.dump(e.right):
                hi = max(a[0] * a[0], a[1] * a[1]) if abs(a[0]) != INF and abs(a[1]) != INF else INF
                return (0.0, hi)
            if a[0] >= 0 and b[0] >= 0:
                return (a[0] * b[0], _mul(a[1], b[1]))
            return top
        if isinstance(e.op, ast.Div):
            if b[0] == b[1] and b[0] > 0 and abs(b[0]) != INF:
                return (a[0] / b[0], a[1] / b[0])
            return top
        if isinstance(e.op, ast.Pow):
            if isinstance(e.right, ast.Constant) and isinstance(e.right.value, int) and e.right.value % 2 == 0 and e.right.value > 0:
                return (0.0, INF)
            return top
        return top
    if isinstance(e, ast.Call):
        q = _ext(proj, m, e)
        if q in ('numpy.sqrt', 'torch.sqrt', 'math.sqrt') and e.args:
            lo, hi = interval(proj, m, func_node, e.args[0], at, depth + 1)
            return (max(lo, 0.0) ** 0.5, (hi ** 0.5 if 0 <= hi != INF else INF))
        if q in ('numpy.abs', 'torch.abs', 'numpy.absolute') or (isinstance(e.func, ast.Name) and e.func.id == 'abs'):
            return (0.0, INF)
        if q in GUARD_MAX and len(e.args) == 2:
            a = interval(proj, m, func_node, e.args[0], at, depth + 1)
            b = interval(proj, m, func_node, e.args[1], at, depth + 1)
            return (max(a[0], b[0]), max(a[1], b[1]))
        if q in ('numpy.minimum', 'torch.minimum') and len(e.args) == 2:
            a = interval(proj, m, func_node, e.args[0], at, depth + 1)
            b = interval(proj, m, func_node, e.args[1], at, depth + 1)
            return (min(a[0], b[0]), min(a[1], b[1]))
        if q in ('numpy.exp', 'torch.exp'):
            return (0.0, INF)
        return top
    return top


def _mul(a, b):
    if a == INF or b == INF:
        return INF
    return a * b


# ================================================================= T1 tolerance discipline
RULE_T1 = ('T1: in a decision function (its boolean / threshold result is what the property calls a certificate) no '
           'ordering comparison puts a value computed by floating-point linear algebra against a bare integer-valued '
           'literal (0, 1, ...): the exact mathematical boundary is attained up to rounding by legitimate inputs, so the '
           'threshold side must carry a tolerance (any non-literal or non-integer expression counts); calls to '
           'is_positive_semi_definite must bind `shift` to a tolerance.')

FLOAT_PREFIX = ('numpy.linalg.', 'scipy.linalg.', 'scipy.sparse.linalg.', 'torch.linalg.', 'scipy.optimize.',
                'opt_einsum.', 'scipy.integrate.')
FLOAT_FUNCS = {'numpy.einsum', 'numpy.trace', 'numpy.vdot', 'numpy.dot', 'numpy.abs', 'numpy.sqrt', 'numpy.kron',
               'numpy.exp', 'numpy.log', 'numpy.cos', 'numpy.sin', 'numpy.arccos', 'numpy.angle', 'numpy.matmul',
               'torch.einsum', 'torch.trace', 'torch.vdot', 'torch.dot', 'torch.abs', 'torch.sqrt', 'numpy.real'}


def _closure_exprs(proj, m, func_node, e, budget, seen):
    """Expressions that e's value may be computed from (names chased through all bindings, appends, callees)."""
    out = [(e, m, func_node)]
    if budget <= 0:
        return out
    for n in walk_pruned(e, _intlike_node):
        if isinstance(n, ast.Name) and isinstance(n.ctx, ast.Load):
            g = comp_binding(n)
            if g is not None:
                key = (id(g), n.id)
                if key not in seen:
                    seen.add(key)
                    out.extend(_closure_exprs(proj, m, func_node, g.iter, budget - 1, seen))
                continue
            # find the scope that binds the name (closure variables live in enclosing functions)
            scopes = [func_node] + [s for s in scope_chain(func_node) if not isinstance(s, ast.Lambda)] if func_node is not None else []
            for sc in scopes:
                if isinstance(sc, ast.Lambda):
                    continue
                key = (id(sc), n.id)
                asg = assignments(sc).get(n.id)
                if asg or local_names(sc).get(n.id) is not None:
                    if key in seen:
                        break
                    seen.add(key)
                    for v, st, path in (asg or []):
                        out.extend(_closure_exprs(proj, m, sc, v, budget - 1, seen))
                    # list.append / extend arguments
                    for c in own_nodes(sc):
                        if isinstance(c, ast.Call) and isinstance(c.func, ast.Attribute) and c.func.attr in ('append', 'extend') \
                                and isinstance(c.func.value, ast.Name) and c.func.value.id == n.id:
                            for a in c.args:
                                out.extend(_closure_exprs(proj, m, sc, a, budget - 1, seen))
                    break
        elif isinstance(n, ast.Call):
            r = resolve_callee(proj, m, n)
            fn, m2 = None, m
            if r.kind == 'func':
                fn, m2 = r.node.node, r.node.module
            elif r.kind == 'localfunc':
                fn = r.node
            if fn is not None and (id(fn), '<ret>') not in seen:
                seen.add((id(fn), '<ret>'))
                for rexpr in return_exprs(fn):
                    out.extend(_closure_exprs(proj, m2, fn, rexpr, budget - 1, seen))
    return out


def _intlike_node(n):
    """Sub-expressions that are integers whatever they are computed from."""
    if isinstance(n, ast.Call) and isinstance(n.func, ast.Name) and n.func.id in ('len', 'range', 'int', 'isinstance', 'hasattr'):
        return True
    if isinstance(n, ast.Attribute) and n.attr in ('shape', 'ndim', 'size', 'dtype'):
        return True
    return False


def is_float_numeric(proj, m, func_node, e):
    """Positive evidence that e is computed by floating-point numerics. Returns the witness text or None."""
    for (x, m2, f2) in _closure_exprs(proj, m, func_node, e, 6, set()):
        for n in walk_pruned(x, _intlike_node):
            if isinstance(n, ast.Call):
                r = resolve_callee(proj, m2, n)
                if r.kind == 'external' and (r.qual.startswith(FLOAT_PREFIX) or r.qual in FLOAT_FUNCS):
                    return r.qual
            elif isinstance(n, ast.BinOp) and isinstance(n.op, ast.MatMult):
                return 'matmul @'
    return None


def _int_literal(e):
    if isinstance(e, ast.UnaryOp) and isinstance(e.op, ast.USub):
        e = e.operand
    return isinstance(e, ast.Constant) and isinstance(e.value, (int, float)) and not isinstance(e.value, bool) \
        and float(e.value) == int(e.value)


def _functions_in(fnode):
    """fnode and every nested def / lambda."""
    out = [fnode]
    for n in ast.walk(fnode):
        if n is not fnode and isinstance(n, (ast.FunctionDef, ast.Lambda)):
            out.append(n)
    return out


def t1(proj, rep, decision_functions):
    rep.rule('T1', RULE_T1)
    ncmp = 0
    nshift = 0
    for qual in decision_functions:
        fi = proj.func(qual)
        m = fi.module
        for scope in _functions_in(fi.node):
            for n in own_nodes(scope):
                if isinstance(n, ast.Compare):
                    operands = [n.left] + list(n.comparators)
                    for (a, op, b) in zip(operands, n.ops, operands[1:]):
                        if not isinstance(op, (ast.Lt, ast.LtE, ast.Gt, ast.GtE)):
                            continue
                        for val, thr in ((a, b), (b, a)):
                            if not _int_literal(thr) or _int_literal(val):
                                continue
                            val2, thr2, how = _through_closure(proj, m, scope, val, thr)
                            w = is_float_numeric(proj, m, scope, val2)
                            if w is None:
                                continue
                            ncmp += 1
                            if _int_literal(thr2):
                                rep.violation('T1', qual,
                                              f'`{ast.unparse(n)}`: left value is computed by {w}{how} and is compared with the '
                                              f'bare literal {ast.unparse(thr2)} (no tolerance)', m, n)
                            else:
                                rep.ok('T1', qual, f'`{ast.unparse(n)}`: threshold `{ast.unparse(thr2)}`{how} carries a tolerance', m, n)
                        # comparisons whose threshold side already is a non-literal: count the float ones as conforming
                        if not _int_literal(a) and not _int_literal(b):
                            w = is_float_numeric(proj, m, scope, a) or is_float_numeric(proj, m, scope, b)
                            if w is not None:
                                ncmp += 1
                                rep.ok('T1', qual, f'`{ast.unparse(n)}`: threshold side is not a bare integer literal', m, n)
                elif isinstance(n, ast.Call):
                    r = resolve_callee(proj, m, n)
                    if r.kind == 'func' and r.qual == 'numqi.utils.is_positive_semi_definite' and qual != r.qual:
                        nshift += 1
                        from ..project import bind_call
                        b = bind_call(n, r.node)
                        sh = b.args.get('shift')
                        if sh is None or (_int_literal(sh)):
                            rep.violation('T1', qual, f'`{ast.unparse(n)}`: PSD test without a tolerance shift', m, n)
                        else:
                            rep.ok('T1', qual, f'PSD test with shift={ast.unparse(sh)}', m, n)
    rep.count('T1.float_comparisons', ncmp)
    rep.count('T1.psd_shift_sites', nshift)
    return ncmp + nshift


def _through_closure(proj, m, scope, val, thr):
    """`f(x) < 0` with f a local closure / package function returning `A - T`  ==>  compare A with T."""
    if isinstance(val, ast.Call) and isinstance(thr, ast.Constant) and thr.value == 0:
        r = resolve_callee(proj, m, val)
        fn = r.node if r.kind == 'localfunc' else (r.node.node if r.kind == 'func' else None)
        if fn is not None:
            rets = return_exprs(fn)
            if len(rets) == 1:
                e = rets[0]
                if isinstance(e, ast.Name):
                    asg = assignments(fn).get(e.id, [])
                    if len(asg) == 1 and asg[0][2] is None:
                        e = asg[0][0]
                if isinstance(e, ast.BinOp) and isinstance(e.op, ast.Sub):
                    return e.left, e.right, f' (through `{getattr(fn, "name", "lambda")}` returning `{ast.unparse(e)}`)'
    return val, thr, ''


# ================================================================= T2 tolerance direction
RULE_T2 = ('T2: under the default parameter values every tolerance moves its threshold in the direction that keeps the '
           'decision sound: PSD tests of the necessary criteria are shifted by a positive amount (lenient towards "PSD"), '
           'accept-thresholds of the necessary criteria lie on the accepting side of the exact boundary, certificate '
           'thresholds (rank / rank-one detectors) on the conservative side.  Direction per decision function is tabulated.')

# required sign of (threshold evaluated at the defaults) - (exact boundary literal inside it, 0 if none)
T2_DIRECTION = {
    'numqi.entangle.ppt.is_generalized_ppt': +1,             # nuclear norm <= 1+threshold accepted
    'numqi.entangle.ppt.get_generalized_ppt_boundary': +1,
    'numqi.entangle._misc.check_swap_witness': -1,           # Tr(rho SWAP) > eps accepted, eps < 0
    'numqi.matrix_space._numerical_range.detect_real_matrix_subspace_rank_one': -1,   # certificate only below 1-zero_eps
    'numqi.matrix_space._hierarchy.has_rank_hierarchical_method': +1,                 # certificate only above zero_eps
    'numqi.matrix_space._hierarchy.is_ABC_completely_entangled_subspace': +1,
}


def _default_env(fi):
    env = {}
    for p, d in fi.defaults.items():
        if isinstance(d, ast.Constant) and isinstance(d.value, (int, float)) and not isinstance(d.value, bool):
            env[p] = d.value
        elif isinstance(d, ast.UnaryOp) and isinstance(d.op, ast.USub) and isinstance(d.operand, ast.Constant):
            env[p] = -d.operand.value
    return env


def _num_eval(e, env):
    from ..tables import const_eval, Sym
    v = const_eval(e, env)
    if isinstance(v, (int, float)) and not isinstance(v, bool):
        return float(v)
    return None


def _boundary_literal(e):
    lits = [n.value for n in ast.walk(e) if isinstance(n, ast.Constant) and isinstance(n.value, (int, float))
            and not isinstance(n.value, bool) and float(n.value) == int(n.value)]
    return float(lits[0]) if len(lits) == 1 else (0.0 if not lits else None)


def t2(proj, rep, decision_functions):
    rep.rule('T2', RULE_T2)
    from ..project import bind_call
    n = 0
    for qual in decision_functions:
        fi = proj.func(qual)
        m = fi.module
        env = _default_env(fi)
        for scope in _functions_in(fi.node):
            for node in own_nodes(scope):
                if isinstance(node, ast.Call):
                    r = resolve_callee(proj, m, node)
                    if r.kind == 'func' and r.qual == 'numqi.utils.is_positive_semi_definite' and qual != r.qual:
                        b = bind_call(node, r.node)
                        sh = b.args.get('shift')
                        if sh is None:
                            continue
                        v = _num_eval(sh, env)
                        n += 1
                        if v is None:
                            rep.ok('T2', qual, f'shift={ast.unparse(sh)} (sign not derivable from defaults)', m, node)
                        elif v > 0:
                            rep.ok('T2', qual, f'shift={ast.unparse(sh)} = {v:g} > 0 at the defaults', m, node)
                        else:
                            rep.violation('T2', qual, f'shift={ast.unparse(sh)} evaluates to {v:g} at the default parameters: the PSD test is '
                                          f'made stricter, so states on the boundary of the criterion (e.g. separable pure-product mixtures) '
                                          f'are rejected', m, node)
                elif isinstance(node, ast.Compare) and qual in T2_DIRECTION:
                    operands = [node.left] + list(node.comparators)
                    for a, op, b2 in zip(operands, node.ops, operands[1:]):
                        if not isinstance(op, (ast.Lt, ast.LtE, ast.Gt, ast.GtE)):
                            continue
                        for val, thr in ((a, b2), (b2, a)):
                            val2, thr2, how = _through_closure(proj, m, scope, val, thr)
                            if _int_literal(thr2) or is_float_numeric(proj, m, scope, val2) is None:
                                continue
                            if is_float_numeric(proj, m, scope, thr2) is not None:
                                continue
                            tv = _num_eval(thr2, env)
                            bl = _boundary_literal(thr2)
                            if tv is None or bl is None:
                                continue
                            if isinstance(thr2, ast.Constant):
                                continue        # fixed literal tolerances of input validation (1e-10 ...): no boundary semantics
                            n += 1
                            s = (tv > bl) - (tv < bl)
                            want = T2_DIRECTION[qual]
                            if s == want:
                                rep.ok('T2', qual, f'`{ast.unparse(node)}`: threshold {ast.unparse(thr2)} = {tv:g} lies on the sound side of {bl:g}', m, node)
                            else:
                                rep.violation('T2', qual, f'`{ast.unparse(node)}`: at the defaults the threshold {ast.unparse(thr2)} = {tv:.3g} lies on the '
                                              f'{"upper" if s > 0 else "lower"} side of the exact boundary {bl:g}; soundness needs the '
                                              f'{"upper" if want > 0 else "lower"} side', m, node)
    rep.count('T2.sites', n)
    return n


# ================================================================= F2 radicand guard
RULE_F2 = ('F2: sqrt(1 - C*C) (or 1 - C**2) where C is computed by floating-point linear algebra (eigenvalues, norms: it attains its '
           'mathematical maximum 1 only up to rounding) clamps the radicand at 0 (maximum(0, .) / clip / abs); otherwise the closed form '
           'is NaN for maximally entangled inputs whose concurrence evaluates to 1 + ulp.')


def f2(proj, rep, modules):
    rep.rule('F2', RULE_F2)
    n = 0
    for fi in proj.iter_functions(modules):
        m = fi.module
        for c in own_nodes(fi.node):
            if not (isinstance(c, ast.Call) and c.args and _ext(proj, m, c) in ('numpy.sqrt', 'torch.sqrt', 'math.sqrt')):
                continue
            arg = c.args[0]
            if guard_kind(proj, m, arg) or (isinstance(arg, ast.Call) and _ext(proj, m, arg) in GUARD_MAX | GUARD_CLIP | {'numpy.abs', 'torch.abs'}):
                # sqrt(maximum(0, 1 - C*C)) : guarded
                inner = [x for x in ast.walk(arg) if _unit_radicand(x)]
                if inner:
                    n += 1
                    rep.ok('F2', fi.qual, f'`{ast.unparse(c)[:60]}`: radicand clamped', m, c)
                continue
            if not _unit_radicand(arg):
                # sqrt((A - B)/c): a difference of two computed positive quantities cancels; a tiny negative result gives NaN
                core = arg
                while isinstance(core, ast.BinOp) and isinstance(core.op, (ast.Div, ast.Mult)) and isinstance(core.right if isinstance(core.op, ast.Div) else core.left, (ast.Constant,)) :
                    core = core.left if isinstance(core.op, ast.Div) else core.right
                if isinstance(core, ast.BinOp) and isinstance(core.op, ast.Sub) and isinstance(core.left, ast.Name) and isinstance(core.right, ast.Name):
                    wa = is_float_numeric(proj, m, fi.node, core.left)
                    wb = is_float_numeric(proj, m, fi.node, core.right)
                    if wa is not None and wb is not None:
                        n += 1
                        rep.violation('F2', fi.qual, f'`{ast.unparse(c)[:80]}`: the radicand is the difference of two computed quantities ({wa}, {wb}); when they are equal up '
                                      f'to rounding (e.g. the maximally mixed state) the difference is a rounding error of either sign: NaN or an error of order sqrt(eps)', m, c)
                continue
            X = _unit_radicand(arg)
            w = is_float_numeric(proj, m, fi.node, X)
            if w is None:
                continue
            n += 1
            lo, hi = interval(proj, m, fi.node, X, c)
            if hi <= 1 and lo >= -1:
                rep.ok('F2', fi.qual, f'`{ast.unparse(c)}`: |{ast.unparse(X)}| <= 1 by interval analysis', m, c)
            else:
                rep.violation('F2', fi.qual, f'`{ast.unparse(c)}`: `{ast.unparse(X)}` is computed by {w} and can exceed 1 by rounding; the radicand is '
                              f'not clamped at 0 -> NaN', m, c)
    rep.count('F2.unit_radicand_sites', n)
    return n


def _unit_radicand(e):
    """1 - X*X  or 1 - X**2  -> X ;  c*(1 - P) / 1 - P with P a plain name (a purity / overlap that attains 1) -> P ; else None."""
    if isinstance(e, ast.BinOp) and isinstance(e.op, ast.Mult):
        for a, b in ((e.left, e.right), (e.right, e.left)):
            if isinstance(a, ast.Constant) and isinstance(a.value, (int, float)) and a.value > 0:
                return _unit_radicand(b)
    if isinstance(e, ast.BinOp) and isinstance(e.op, ast.Sub) and isinstance(e.left, ast.Constant) and e.left.value == 1:
        r = e.right
        if isinstance(r, ast.Name):
            return r
        if isinstance(r, ast.BinOp) and isinstance(r.op, ast.Mult) and ast.dump(r.left) == ast.dump(r.right):
            return r.left
        if isinstance(r, ast.BinOp) and isinstance(r.op, ast.Pow) and isinstance(r.right, ast.Constant) and r.right.value == 2:
            return r.left
    return None


# ================================================================= T3 precision class vs tolerance
RULE_T3 = ('T3: a decision threshold must not be tighter than the precision class of the compared value. A value obtained as '
           'sqrt(eigenvalues(...)) (singular values through a Gram matrix, sqrt of a spectrum) carries an absolute error of about '
           'sqrt(machine eps) ~ 1e-8 wherever the exact eigenvalue is 0 (rank-deficient input); its tolerance at the default parameters '
           'must be at least 1e-7. Values from SVD / norms / eigenvalues themselves are in the eps class and are not constrained here.')

_EIG = {'numpy.linalg.eigvalsh', 'numpy.linalg.eigvals', 'numpy.linalg.eigh', 'numpy.linalg.eig', 'scipy.linalg.eigvalsh',
        'scipy.linalg.eigh', 'torch.linalg.eigvalsh', 'torch.linalg.eigh', 'torch.linalg.eigvals'}
_SQRT = {'numpy.sqrt', 'torch.sqrt', 'math.sqrt', 'numpy.emath.sqrt'}
SQRT_EPS_CLASS = 1e-7


def _sqrt_of_spectrum(proj, m, scope, e):
    """a `sqrt(X)` in the provenance of e whose X is computed from an eigenvalue routine: returns the sqrt call or None"""
    for (x, m2, f2) in _closure_exprs(proj, m, scope, e, 6, set()):
        for n in walk_pruned(x, _intlike_node):
            if isinstance(n, ast.Call):
                r = resolve_callee(proj, m2, n)
                if r.kind == 'external' and r.qual in _SQRT and n.args:
                    for (y, m3, f3) in _closure_exprs(proj, m2, f2, n.args[0], 4, set()):
                        for k in walk_pruned(y, _intlike_node):
                            if isinstance(k, ast.Call):
                                r2 = resolve_callee(proj, m3, k)
                                if r2.kind == 'external' and r2.qual in _EIG:
                                    return n
    return None


def t3(proj, rep, decision_functions):
    rep.rule('T3', RULE_T3)
    n = 0
    for qual in decision_functions:
        fi = proj.func(qual)
        m = fi.module
        env = _default_env(fi)
        for scope in _functions_in(fi.node):
            for node in own_nodes(scope):
                if not isinstance(node, ast.Compare):
                    continue
                operands = [node.left] + list(node.comparators)
                for a, op, b2 in zip(operands, node.ops, operands[1:]):
                    if not isinstance(op, (ast.Lt, ast.LtE, ast.Gt, ast.GtE)):
                        continue
                    for val, thr in ((a, b2), (b2, a)):
                        val2, thr2, how = _through_closure(proj, m, scope, val, thr)
                        if _int_literal(thr2) or is_float_numeric(proj, m, scope, val2) is None:
                            continue
                        if is_float_numeric(proj, m, scope, thr2) is not None:
                            continue
                        tv = _num_eval(thr2, env)
                        bl = _boundary_literal(thr2)
                        if tv is None or bl is None:
                            continue
                        n += 1
                        tol = abs(tv - bl)
                        sq = _sqrt_of_spectrum(proj, m, scope, val2)
                        if sq is not None and tol < SQRT_EPS_CLASS:
                            rep.violation('T3', qual, f'`{ast.unparse(node)[:80]}`: the compared value passes through `{ast.unparse(sq)[:70]}` '
                                          f'(precision ~1e-8 for rank-deficient input) but the tolerance at the defaults is {tol:.3g}: legitimate '
                                          f'boundary inputs (e.g. pure product states) fall on the wrong side', m, node)
                        else:
                            rep.ok('T3', qual, f'`{ast.unparse(node)[:60]}`: tolerance {tol:.3g}, value in the '
                                   f'{"sqrt(eps)" if sq is not None else "eps"} class', m, node)
    rep.count('T3.sites', n)
    return n


# ================================================================= SV1 SDP feasibility verdict
RULE_SV1 = ('SV1: the verdict of a feasibility SDP (constant objective) is "feasible unless the solver reports infeasibility": '
            '`not np.isinf(prob.value)`. Testing `prob.status` for equality with OPTIMAL alone answers "no extension / entangled" whenever '
            'the solver stops with optimal_inaccurate on a feasible (separable) input.')


def sv1(proj, rep, modules):
    rep.rule('SV1', RULE_SV1)
    n = 0
    for mq in modules:
        m = proj.mod(mq)
        rep.touch(m)
        for fi in [f for f in proj.funcs.values() if f.module is m]:
            solves = [c for c in own_nodes(fi.node) if isinstance(c, ast.Call) and isinstance(c.func, ast.Attribute) and c.func.attr == 'solve'
                      and isinstance(c.func.value, ast.Name)]
            if not solves:
                continue
            probs = {c.func.value.id for c in solves}
            for x in own_nodes(fi.node):
                if isinstance(x, ast.Compare) and isinstance(x.left, ast.Attribute) and x.left.attr == 'status' \
                        and isinstance(x.left.value, ast.Name) and x.left.value.id in probs:
                    n += 1
                    txt = ast.unparse(x)
                    accepts = [ast.unparse(c) for c in x.comparators]
                    if isinstance(x.ops[0], (ast.Eq, ast.Is)) or (isinstance(x.ops[0], ast.In) and 'INACCURATE' not in txt.upper()):
                        rep.violation('SV1', fi.qual, f'`{txt}`: only {accepts} counts as feasible; an `optimal_inaccurate` stop on a feasible input is '
                                      f'reported as infeasible (a separable state is declared entangled)', m, x)
                    else:
                        rep.undecided('SV1', fi.qual, f'`{txt}`: status test not understood', m, x)
                        n -= 1
                elif isinstance(x, ast.Call) and isinstance(x.func, ast.Attribute) and x.func.attr == 'isinf' and x.args \
                        and isinstance(x.args[0], ast.Attribute) and x.args[0].attr == 'value' and isinstance(x.args[0].value, ast.Name) \
                        and x.args[0].value.id in probs:
                    n += 1
                    rep.ok('SV1', fi.qual, f'`{ast.unparse(x)}`: feasible unless the solver reports +-inf', m, x)
    rep.count('SV1.sites', n)
    return n


# ================================================================= F4 softplus stability
RULE_F4 = ('F4: a hand-written softplus / log-sum-exp `log1p(exp(E))`, `log(1 + exp(E))` evaluates exp only at a non-positive argument '
           '(E = -|x|, -sign(x)*x, x - max(x), minimum(x, 0)): with E = x or -x of an unbounded parameter the value cancels to exactly 0 '
           '(x < -37 in float64: not a positive real) or overflows to inf (|x| > 88.7 in float32), inside the stated |theta| <= 1e2.')


def _nonpositive_form(fn, e, depth=0):
    """True if e is of a recognised non-positive form; False if it is +-(a bare parameter/array name); None otherwise"""
    t = ast.unparse(e).replace(' ', '')
    if isinstance(e, ast.UnaryOp) and isinstance(e.op, ast.USub):
        inner = e.operand
        ti = ast.unparse(inner).replace(' ', '')
        if isinstance(inner, ast.Call) and ti.split('(')[0].split('.')[-1] in ('abs', 'absolute', 'fabs'):
            return True
        if isinstance(inner, ast.BinOp) and isinstance(inner.op, ast.Mult):
            # -s*x with s = sign(x)
            for a, b in ((inner.left, inner.right), (inner.right, inner.left)):
                sa = a
                if isinstance(a, ast.Name):
                    asg = assignments(fn).get(a.id, [])
                    if len(asg) == 1:
                        sa = asg[0][0]
                if isinstance(sa, ast.Call) and ast.unparse(sa.func).split('.')[-1] == 'sign' and sa.args \
                        and ast.unparse(sa.args[0]) == ast.unparse(b):
                    return True
        if isinstance(inner, ast.Name):
            return False
        return None
    if isinstance(e, ast.Name):
        return False
    if isinstance(e, ast.BinOp) and isinstance(e.op, ast.Mult):
        # (-s)*x  ==  -(s*x)
        for a, b in ((e.left, e.right), (e.right, e.left)):
            if isinstance(a, ast.UnaryOp) and isinstance(a.op, ast.USub):
                return _nonpositive_form(fn, ast.UnaryOp(op=ast.USub(), operand=ast.BinOp(left=a.operand, op=ast.Mult(), right=b)), depth + 1)
    if isinstance(e, ast.BinOp) and isinstance(e.op, ast.Sub) and 'max' in ast.unparse(e.right):
        return True
    if isinstance(e, ast.Call) and t.split('(')[0].split('.')[-1] in ('minimum', 'fmin') and any(isinstance(a, ast.Constant) and a.value == 0 for a in e.args):
        return True
    return None


def f4(proj, rep, modules):
    rep.rule('F4', RULE_F4)
    n = 0
    for mq in modules:
        m = proj.mod(mq)
        rep.touch(m)
        for fi in [f for f in proj.funcs.values() if f.module is m]:
            for c in own_nodes(fi.node):
                if not isinstance(c, ast.Call) or not c.args:
                    continue
                name = ast.unparse(c.func).split('.')[-1]
                E = None
                if name == 'log1p' and isinstance(c.args[0], ast.Call) and ast.unparse(c.args[0].func).split('.')[-1] == 'exp' and c.args[0].args:
                    E = c.args[0].args[0]
                elif name == 'log' and isinstance(c.args[0], ast.BinOp) and isinstance(c.args[0].op, ast.Add):
                    for a, b in ((c.args[0].left, c.args[0].right), (c.args[0].right, c.args[0].left)):
                        if isinstance(a, ast.Constant) and a.value == 1 and isinstance(b, ast.Call) and ast.unparse(b.func).split('.')[-1] == 'exp' and b.args:
                            E = b.args[0]
                if E is None:
                    continue
                v = _nonpositive_form(fi.node, E)
                if v is True:
                    n += 1
                    rep.ok('F4', fi.qual, f'`{ast.unparse(c)[:60]}`: exp at the non-positive argument `{ast.unparse(E)}`', m, c)
                elif v is False:
                    n += 1
                    rep.violation('F4', fi.qual, f'`{ast.unparse(c)[:70]}`: exp is evaluated at `{ast.unparse(E)}`, unbounded above: the softplus cancels to 0 / '
                                  f'overflows to inf for strongly negative (positive) input inside |theta| <= 1e2', m, c)
                else:
                    rep.undecided('F4', fi.qual, f'`{ast.unparse(c)[:70]}`: sign of `{ast.unparse(E)}` not derivable', m, c)
    rep.count('F4.sites', n)
    return n


# ================================================================= F5 clamp order
RULE_F5 = ('F5: a clamp that protects a square root sits INSIDE it: `sqrt(maximum(0, x))`. The form `maximum(0, sqrt(x))` states the belief that x can be '
           'negative (why else clamp) yet takes the root first: sqrt of a -1e-17 rounding error is NaN and maximum / clip propagate NaN, so the clamp '
           'never acts (rank-deficient states make such eigenvalues routine).')


def f5(proj, rep, modules):
    rep.rule('F5', RULE_F5)
    n = 0
    for fi in proj.iter_functions(modules):
        m = fi.module
        for c in own_nodes(fi.node):
            if not (isinstance(c, ast.Call) and c.args):
                continue
            ext = _ext(proj, m, c)
            if ext in ('numpy.sqrt', 'torch.sqrt', 'math.sqrt'):
                a = c.args[0]
                if isinstance(a, ast.Call) and _ext(proj, m, a) in GUARD_MAX | GUARD_CLIP:
                    n += 1
                    rep.touch(m)
                    rep.ok('F5', fi.qual, f'`{ast.unparse(c)[:60]}`: clamp inside the root', m, c)
            elif ext in GUARD_MAX | GUARD_CLIP:
                inner = [a for a in c.args if isinstance(a, ast.Call) and _ext(proj, m, a) in ('numpy.sqrt', 'torch.sqrt', 'math.sqrt')]
                zero = any(_is_zero(a) for a in c.args) or any(k.arg in ('min', 'a_min') and _is_zero(k.value) for k in c.keywords)
                if inner and zero:
                    n += 1
                    rep.touch(m)
                    rep.violation('F5', fi.qual, f'`{ast.unparse(c)[:80]}` clamps AFTER the square root: for a slightly negative `{ast.unparse(inner[0].args[0])[:40]}` the '
                                  f'root is NaN and the clamp propagates it (concurrence / EOF / GME of rank-deficient states become NaN)', m, c)
    rep.count('F5.clamped_roots', n)
    return n
