"""SP1-SP6 — writer/reader agreement clauses of the Sp(2n,F2) indexing (C09).

The bijection itself (every tuple gives a distinct symplectic matrix, counts equal the group order) is a property of run-time bit
vectors and is NOT decided.  What the shape of the code does decide is that the encoder `from_int_tuple` and the decoder
`to_int_tuple` (and the helper tables they rely on) agree with each other - each of these is a necessary condition of "the inverse map
returns the original tuple" / "every image preserves the symplectic form":

SP1  the three arms of _get_number_internal ('base', 'order', 'coset') are built from the same generator 4^i, i = 1..n and the same two
     factors (4^i - 1, 4^i / 2): order = prod(base) = prod(coset).
SP2  the recursive step embeds the (2n-2)x(2n-2) matrix into rows/columns {1..n-1, n+1..2n-1} of g by ONE index map used for rows and
     for columns (four block assignments = product of that map with itself); the decoder removes exactly the same rows and columns
     (0 and n) in the same order.
SP3  codec of the pair (a_i, b_i): encoder `int_to_bitarray(ai+1, 2n)` <-> decoder `bitarray_to_int(mat[0]) - 1`; the encoder expands b_i to
     2n-1 bits, the decoder packs tw without entry n; both build h0 from the same slices ([0] fixed to e1[0], 1..n-1, [n] fixed to e1[1],
     the rest); the extra transvection is applied on the SAME polarity of that first bit in both directions.
SP4  bit-array helpers use one bit order and one byte order (all four literals 'little').
SP5  symplectic inner product crosses the halves (x[:n].y[n:] + x[n:].y[:n]) and a transvection is x + <x,h> h (mod 2); the closed-form
     inverse is roll(mat.T, n) on both axes (= Lambda S^T Lambda).
SP6  in the last case of find_transvection the v0-side and the v1-side blocks are the same code up to v0 <-> v1.
"""
import ast

RULES = {
    'SP1': 'SP1: base / order / coset arms of _get_number_internal use the generator 1<<(2*i), i in 1..n, and the same factor pair (x-1, x>>1).',
    'SP2': ('SP2: from_int_tuple embeds the recursive result by one index map {1:N0 -> :(N0-1), (N0+1): -> (N0-1):} applied to rows and columns '
            '(all four blocks); to_int_tuple removes rows and columns 0 and N0 with the same two ranges in the same order.'),
    'SP3': ('SP3: (a_i, b_i) codec: +1/-1 offset pair, 2*N0 / 2*N0-1 bit widths, identical h0 slices, and the same polarity of the first bit for '
            'the extra transvection in encoder and decoder.'),
    'SP4': "SP4: int_to_bitarray / bitarray_to_int use bitorder='little' and byteorder 'little' throughout.",
    'SP5': ('SP5: get_inner_product crosses the halves, transvection is (x + <x,h>*h) % 2, inverse is np.roll(mat.T, N0, axis=(0,1)).'),
    'SP6': 'SP6: the two `if len(tmp0):` blocks of the last case of find_transvection are identical up to the renaming v0 <-> v1.',
}
MOD = 'numqi.group.spf2'


def _t(e):
    return ast.unparse(e).replace(' ', '')


def sp1(proj, rep):
    rep.rule('SP1', RULES['SP1'])
    f = proj.func(f'{MOD}._get_number_internal')
    m = f.module
    rep.touch(m)
    n = 0
    gen = next((s for s in f.node.body if isinstance(s, ast.Assign) and isinstance(s.value, ast.GeneratorExp)), None)
    n += 1
    if gen is None:
        rep.undecided('SP1', f.qual, 'generator of 4^i not found', m, f.node, text='generator')
        return 0
    g = gen.value
    ok = _t(g.elt) in ('1<<2*x', '1<<(2*x)', '4**x') and _t(g.generators[0].iter) == 'range(1,n+1)'
    if ok:
        rep.ok('SP1', f'{f.qual}[generator]', f'x = {_t(g.elt)} for x in range(1, n+1)', m, gen)
    else:
        rep.violation('SP1', f'{f.qual}[generator]', f'`{_t(gen.value)}` is not 4^i for i = 1..n: the radices no longer multiply to |Sp(2n,F2)|', m, gen)
    arms = {}
    node = next((s for s in f.node.body if isinstance(s, ast.If)), None)
    while node is not None:
        key = _t(node.test)
        arms[key] = node.body
        if len(node.orelse) == 1 and isinstance(node.orelse[0], ast.If):
            node = node.orelse[0]
        else:
            arms['else'] = node.orelse
            break
    want = {'x-1', 'x>>1'}
    alt = {'x-1', 'x//2'}
    for key, body in arms.items():
        facs = set()
        for st in body:
            for b in ast.walk(st):
                if isinstance(b, ast.BinOp) and isinstance(b.op, (ast.Sub, ast.RShift, ast.FloorDiv)) and isinstance(b.left, ast.Name) and b.left.id != 'ret':
                    facs.add(_t(b))
        if not facs:
            continue
        n += 1
        if facs in (want, alt):
            rep.ok('SP1', f'{f.qual}[{key}]', f'factors {sorted(facs)}', m, body[0])
        else:
            rep.violation('SP1', f'{f.qual}[{key}]', f'arm uses factors {sorted(facs)}; the sibling arms use (x-1, x>>1) = (4^i - 1, 2^(2i-1)): base, order and '
                          f'coset numbers disagree', m, body[0])
    # exact integers: |Sp(2n,F2)| exceeds 2^63 from n = 6 on, so no fixed-width (numpy) reduction may appear
    n += 1
    npcalls = [c for c in ast.walk(f.node) if isinstance(c, ast.Call) and _t(c.func).startswith(('np.', 'numpy.'))]
    if npcalls:
        rep.violation('SP1', f'{f.qual}[exact integers]', f'`{ast.unparse(npcalls[0])[:80]}` reduces the radices in fixed-width NumPy integers: the group order '
                      f'exceeds 2^63 from n = 6 (|Sp(12,F2)| ~ 2e23) and wraps silently, so the order no longer equals prod(base)', m, npcalls[0])
    else:
        rep.ok('SP1', f'{f.qual}[exact integers]', 'radices are accumulated in Python integers', m, f.node, text='exact integers')
    rep.count('SP1.obligations', n)
    return n


def _slice_pairs(f, target_name, source_name):
    out = []
    for st in ast.walk(f):
        if isinstance(st, ast.Assign) and isinstance(st.targets[0], ast.Subscript) and isinstance(st.targets[0].value, ast.Name) \
                and st.targets[0].value.id == target_name and isinstance(st.value, ast.Subscript) and isinstance(st.value.value, ast.Name) \
                and st.value.value.id == source_name and isinstance(st.targets[0].slice, ast.Tuple) and isinstance(st.value.slice, ast.Tuple):
            tr, tc = [_t(x) for x in st.targets[0].slice.elts]
            sr, sc = [_t(x) for x in st.value.slice.elts]
            out.append(((tr, tc), (sr, sc), st))
    return out


def sp2(proj, rep):
    rep.rule('SP2', RULES['SP2'])
    n = 0
    f = proj.func(f'{MOD}.from_int_tuple')
    m = f.module
    rep.touch(m)
    pairs = _slice_pairs(f.node, 'g', 'tmp0')
    n += 1
    if len(pairs) != 4:
        rep.undecided('SP2', f.qual, f'{len(pairs)} block assignments g[..] = tmp0[..] found (expected 4)', m, f.node, text='blocks')
        return 0
    rowmap, colmap = {}, {}
    bad = None
    for (tr, tc), (sr, sc), st in pairs:
        for mp, a, b in ((rowmap, tr, sr), (colmap, tc, sc)):
            if a in mp and mp[a] != b:
                bad = (st, a, mp[a], b)
            mp.setdefault(a, b)
    canon = {'1:N0': ':N0-1', 'N0+1:': 'N0-1:'}

    def norm(mp):
        return {k.replace('(', '').replace(')', ''): v.replace('(', '').replace(')', '') for k, v in mp.items()}
    if bad:
        st, a, b1, b2 = bad
        rep.violation('SP2', f'{f.qual}[embedding]', f'`{ast.unparse(st)}`: target range {a} is fed from source range {b2} here and from {b1} in a sibling '
                      f'block: the four blocks are not one index map applied to rows and columns (the embedded matrix is scrambled)', m, st)
    elif norm(rowmap) != norm(colmap):
        rep.violation('SP2', f'{f.qual}[embedding]', f'row map {rowmap} differs from column map {colmap}', m, pairs[0][2])
    elif len({(a, b) for (a, b), _, _ in pairs}) != 4:
        rep.violation('SP2', f'{f.qual}[embedding]', 'the four assignments do not cover the four (row range, column range) combinations', m, pairs[0][2])
    elif norm(rowmap) == canon:
        rep.ok('SP2', f'{f.qual}[embedding]', 'g[{1:N0, N0+1:}^2] = tmp0[{:N0-1, N0-1:}^2]', m, pairs[0][2])
    else:
        rep.violation('SP2', f'{f.qual}[embedding]', f'index map {norm(rowmap)} is not {{1:N0 -> :N0-1, N0+1: -> N0-1:}}: rows/columns 0 and N0 (the e1, f1 pair) '
                      f'are not the ones left to the transvections', m, pairs[0][2])
    # decoder
    f2 = proj.func(f'{MOD}.to_int_tuple')
    cats = [c for c in ast.walk(f2.node) if isinstance(c, ast.Call) and _t(c.func) == 'np.concatenate' and c.args and isinstance(c.args[0], ast.List)
            and len(c.args[0].elts) == 2]
    rows = [c for c in cats if all(isinstance(e, ast.Subscript) and not isinstance(e.slice, ast.Tuple) for e in c.args[0].elts)
            and any(k.arg == 'axis' and _t(k.value) == '0' for k in c.keywords)]
    cols = [c for c in cats if all(isinstance(e, ast.Subscript) and isinstance(e.slice, ast.Tuple) for e in c.args[0].elts)
            and any(k.arg == 'axis' and _t(k.value) == '1' for k in c.keywords)]
    n += 1
    if len(rows) != 1 or len(cols) != 1:
        rep.undecided('SP2', f'{f2.qual}[extraction]', 'row / column extraction concatenations not recognised', m, f2.node, text='extraction')
        return n - 1
    rr = [_t(e.slice).replace('(', '').replace(')', '') for e in rows[0].args[0].elts]
    cc = [_t(e.slice.elts[1]).replace('(', '').replace(')', '') for e in cols[0].args[0].elts]
    if rr == ['1:N0', 'N0+1:'] and cc == ['1:N0', 'N0+1:']:
        rep.ok('SP2', f'{f2.qual}[extraction]', 'rows and columns {1:N0, N0+1:} kept, in the embedding order', m, rows[0])
    else:
        rep.violation('SP2', f'{f2.qual}[extraction]', f'decoder keeps rows {rr} and columns {cc}; the encoder embeds into {{1:N0, N0+1:}} in that order: '
                      f'the recursion no longer inverts the encoder', m, rows[0])
    rep.count('SP2.obligations', n)
    return n


def sp3(proj, rep):
    rep.rule('SP3', RULES['SP3'])
    fe = proj.func(f'{MOD}.from_int_tuple')
    fd = proj.func(f'{MOD}.to_int_tuple')
    m = fe.module
    n = 0
    te, td = _t(fe.node), _t(fd.node)

    def asg(fn, name):
        return [s for s in ast.walk(fn) if isinstance(s, ast.Assign) and isinstance(s.targets[0], ast.Name) and s.targets[0].id == name]
    # offsets
    n += 1
    e_f1 = asg(fe.node, 'f1')
    d_ai = asg(fd.node, 'ai')
    if e_f1 and d_ai:
        a, b = _t(e_f1[0].value), _t(d_ai[0].value)
        if a == 'int_to_bitarray(ai+1,2*N0)' and b == 'bitarray_to_int(mat[0])-1':
            rep.ok('SP3', 'a_i codec', 'encoder ai+1 -> 2*N0 bits, decoder int(mat[0]) - 1', m, e_f1[0])
        elif a.startswith('int_to_bitarray(') and b.startswith('bitarray_to_int('):
            rep.violation('SP3', 'a_i codec', f'encoder `{a}` and decoder `{b}` are not inverse of each other (offset +1 / -1 on the first row, width 2*N0)', m, e_f1[0])
        else:
            rep.undecided('SP3', 'a_i codec', 'codec expressions not recognised', m, e_f1[0])
            n -= 1
    else:
        rep.undecided('SP3', 'a_i codec', 'f1 / ai assignments not found', m, fe.node, text='ai codec')
        n -= 1
    # b_i widths / slices
    n += 1
    e_bits = asg(fe.node, 'bits')
    d_bi = asg(fd.node, 'bi')
    if e_bits and d_bi:
        a, b = _t(e_bits[0].value), _t(d_bi[0].value).replace('(N0+1)', 'N0+1')
        if a == 'int_to_bitarray(bi,2*N0-1)' and b == 'bitarray_to_int(np.concatenate([tw[:N0],tw[N0+1:]]))':
            rep.ok('SP3', 'b_i codec', '2*N0-1 bits <-> tw without entry N0', m, e_bits[0])
        else:
            rep.violation('SP3', 'b_i codec', f'encoder `{a}` / decoder `{b}`: the decoder must pack exactly the 2*N0-1 entries of tw other than entry N0', m, d_bi[0])
    else:
        rep.undecided('SP3', 'b_i codec', 'bits / bi assignments not found', m, fe.node, text='bi codec')
        n -= 1
    # h0 slices
    n += 1
    e_h = [s for s in asg(fe.node, 'tmp0') if 'np.concatenate' in _t(s.value) and 'bits' in _t(s.value)]
    d_h = asg(fd.node, 'h0')
    if e_h and d_h:
        a = _t(e_h[0].value)
        b = _t(d_h[0].value).replace('(N0+1)', 'N0+1')
        # decoder's tw[k] corresponds to bits[k] for k<N0 and bits[k-1] for k>N0
        if a == 'np.concatenate([e1[:1],bits[1:N0],e1[1:2],bits[N0:]])' and b == 'np.concatenate([e1[:1],tw[1:N0],e1[1:2],tw[N0+1:]])':
            rep.ok('SP3', 'h0 slices', 'h0 = [1, bits[1:N0], 0, bits[N0:]] on both sides (tw[N0+1:] = bits[N0:])', m, e_h[0])
        else:
            rep.violation('SP3', 'h0 slices', f'encoder builds h0 from `{a}`, decoder from `{b}`: they must select the same entries (bits = tw without entry N0)', m, d_h[0])
    else:
        rep.undecided('SP3', 'h0 slices', 'h0 constructions not found', m, fe.node, text='h0')
        n -= 1
    # polarity
    n += 1
    e_if = next((x for x in ast.walk(fe.node) if isinstance(x, ast.IfExp) and 'bits[0]' in _t(x.test)), None)
    d_if = next((x for x in ast.walk(fd.node) if isinstance(x, ast.IfExp) and 'tw[0]' in _t(x.test)), None)
    if e_if is None or d_if is None:
        rep.undecided('SP3', 'extra transvection polarity', 'conditional tuples not found', m, fe.node, text='polarity')
        n -= 1
    else:
        def extra_on(ifexp, var):
            """value (0/1) of the first bit for which the LONGER tuple (with the extra transvection) is chosen"""
            test = _t(ifexp.test)
            lb, lo = len(ifexp.body.elts), len(ifexp.orelse.elts)
            val = 1 if test.endswith('==1') else (0 if test.endswith('==0') else None)
            if val is None or lb == lo:
                return None
            return val if lb > lo else 1 - val
        pe, pd = extra_on(e_if, 'bits'), extra_on(d_if, 'tw')
        if pe is None or pd is None:
            rep.undecided('SP3', 'extra transvection polarity', 'tuple lengths / tests not recognised', m, e_if)
            n -= 1
        elif pe == pd:
            rep.ok('SP3', 'extra transvection polarity', f'the fourth transvection is applied when the first bit is {pe} in both directions', m, e_if)
        else:
            rep.violation('SP3', 'extra transvection polarity', f'encoder applies the extra transvection when bits[0]=={pe}, decoder when tw[0]=={pd}: the '
                          f'decoder undoes the wrong coset representative for half of the b_i', m, d_if)
    rep.count('SP3.obligations', n)
    return n


def sp4(proj, rep):
    rep.rule('SP4', RULES['SP4'])
    n = 0
    m = proj.mod(MOD)
    lits = []
    for q in ('int_to_bitarray', 'bitarray_to_int'):
        f = proj.func(f'{MOD}.{q}')
        for c in ast.walk(f.node):
            if isinstance(c, ast.Call):
                for k in c.keywords:
                    if k.arg in ('bitorder', 'byteorder') and isinstance(k.value, ast.Constant):
                        lits.append((q, k.arg, k.value.value, c))
                if isinstance(c.func, ast.Attribute) and c.func.attr == 'to_bytes' and len(c.args) >= 2 and isinstance(c.args[1], ast.Constant):
                    lits.append((q, 'byteorder', c.args[1].value, c))
    # exact integers only: numpy place values `1<<np.arange(n)` are fixed-width (bit 63 is negative, higher bits vanish)
    for q in ('int_to_bitarray', 'bitarray_to_int'):
        f = proj.func(f'{MOD}.{q}')
        npw = [c for c in ast.walk(f.node) if isinstance(c, ast.BinOp) and isinstance(c.op, (ast.LShift, ast.Pow)) and 'arange' in ast.unparse(c)]
        if npw:
            n += 1
            rep.violation('SP4', f'{MOD}.{q}', f'`{ast.unparse(npw[0])[:60]}` builds the place values in a fixed-width NumPy integer: for 64 bits or more (n >= 32) the integer is '
                          f'truncated / negative, so int -> bits -> int is no longer the identity', m, npw[0])
            return n
    n += 1
    if len(lits) < 4:
        rep.undecided('SP4', MOD, f'{len(lits)} order literals found (expected 4)', m, m.tree, text='order literals')
        return 0
    odd = [x for x in lits if x[2] != 'little']
    if odd:
        q, k, v, c = odd[0]
        rep.violation('SP4', f'{MOD}.{q}', f'`{ast.unparse(c)[:80]}` uses {k}={v!r} while the sibling conversions use \'little\': integers and bit arrays no longer '
                      f'round-trip (for more than one byte / non-palindromic bytes)', m, c)
    else:
        rep.ok('SP4', MOD, f'{len(lits)} bit/byte order literals, all \'little\'', m, lits[0][3])
    return n


def sp5(proj, rep):
    rep.rule('SP5', RULES['SP5'])
    n = 0
    m = proj.mod(MOD)
    f = proj.func(f'{MOD}.get_inner_product')
    ret = next((s for s in ast.walk(f.node) if isinstance(s, ast.Assign) and 'np.dot' in _t(s.value)), None)
    n += 1
    if ret is None:
        rep.undecided('SP5', f.qual, 'inner product expression not found', m, f.node, text='inner product')
        n -= 1
    else:
        t = _t(ret.value)
        dots = [c for c in ast.walk(ret.value) if isinstance(c, ast.Call) and _t(c.func) == 'np.dot']
        halves = []
        for c in dots:
            a, b = _t(c.args[0]), _t(c.args[1])
            ha = 'lo' if a.endswith(':N0]') else ('hi' if a.endswith('N0:]') else None)
            hb = 'lo' if b.endswith('[:N0]') else ('hi' if b.endswith('[N0:]') else None)
            halves.append((ha, hb))
        if sorted(halves) == [('hi', 'lo'), ('lo', 'hi')] and t.endswith('%2'):
            rep.ok('SP5', f.qual, 'x[:N0].y[N0:] + x[N0:].y[:N0] mod 2', m, ret)
        elif None in [h for p in halves for h in p] or len(halves) != 2:
            rep.undecided('SP5', f.qual, f'halves {halves} not recognised', m, ret)
            n -= 1
        else:
            rep.violation('SP5', f.qual, f'`{t[:80]}` pairs halves {halves}: the symplectic form must cross the X and Z halves (and be reduced mod 2)', m, ret)
    # every pairing of a half of v0 with a half of v1 (any formulation, any branch) crosses the halves
    def _half(e):
        if not isinstance(e, ast.Subscript) or not isinstance(e.value, ast.Name) or e.value.id not in f.all_params:
            return None
        sl = e.slice.elts[-1] if isinstance(e.slice, ast.Tuple) else e.slice
        if not isinstance(sl, ast.Slice) or sl.step is not None:
            return None
        if sl.lower is None and sl.upper is not None and _t(sl.upper) == 'N0':
            return (e.value.id, 'lo')
        if sl.upper is None and sl.lower is not None and _t(sl.lower) == 'N0':
            return (e.value.id, 'hi')
        return None
    for c in ast.walk(f.node):
        pair = None
        if isinstance(c, ast.Call) and _t(c.func).split('.')[-1] in ('dot', 'vdot', 'inner', 'matmul', 'logical_and', 'bitwise_and', 'multiply') and len(c.args) >= 2:
            pair = (c.args[0], c.args[1])
        elif isinstance(c, ast.BinOp) and isinstance(c.op, (ast.BitAnd, ast.Mult, ast.MatMult)):
            pair = (c.left, c.right)
        if pair is None:
            continue
        ha, hb = _half(pair[0]), _half(pair[1])
        if ha and hb and ha[0] != hb[0] and ha[1] == hb[1]:
            rep.violation('SP5', f.qual, f'`{_t(c)[:70]}` pairs the {ha[1]} half of {ha[0]} with the {hb[1]} half of {hb[0]}: the symplectic form crosses the X and Z halves', m, c)
    f = proj.func(f'{MOD}.transvection')
    upd = next((s for s in ast.walk(f.node) if isinstance(s, ast.Assign) and isinstance(s.targets[0], ast.Name) and s.targets[0].id == 'x'), None)
    n += 1
    if upd is not None and _t(upd.value) in ('(x+tmp0*h)%2', '(x+h*tmp0)%2'):
        ip = next((s for s in ast.walk(f.node) if isinstance(s, ast.Assign) and _t(s.value) in ('get_inner_product(x,h)',)), None)
        if ip is not None:
            rep.ok('SP5', f.qual, 'x <- (x + <x,h> h) mod 2', m, upd)
        else:
            rep.violation('SP5', f.qual, 'the coefficient of h is not get_inner_product(x, h)', m, upd)
    elif upd is None:
        rep.undecided('SP5', f.qual, 'update statement not found', m, f.node, text='transvection')
        n -= 1
    else:
        rep.violation('SP5', f.qual, f'`{_t(upd)}` is not x + <x,h>*h (mod 2)', m, upd)
    # no function of the module mutates an array parameter in place (to_int_tuple hands views of the caller's matrix to transvection)
    n += 1
    impure = None
    nfun = 0
    for fi2 in [x for x in proj.funcs.values() if x.module is m and x.cls is None]:
        nfun += 1
        params = set(fi2.all_params)
        for st in ast.walk(fi2.node):
            tgt = None
            if isinstance(st, ast.AugAssign):
                tgt = st.target
            elif isinstance(st, ast.Assign) and isinstance(st.targets[0], ast.Subscript):
                tgt = st.targets[0]
            if tgt is None:
                continue
            base = tgt
            while isinstance(base, ast.Subscript):
                base = base.value
            if isinstance(base, ast.Name) and base.id in params:
                # a parameter that was re-bound to a fresh object before this statement is no longer the caller's array
                rebound = any(isinstance(s2, ast.Assign) and any(isinstance(t2, ast.Name) and t2.id == base.id for t2 in s2.targets) and s2.lineno < st.lineno
                              for s2 in ast.walk(fi2.node))
                if not rebound:
                    impure = (fi2, st, base.id)
                    break
        if impure:
            break
    if impure:
        fi2, st, pn = impure
        rep.violation('SP5', fi2.qual, f'`{ast.unparse(st)[:70]}` modifies the caller\'s array `{pn}` in place: to_int_tuple passes rows of its argument, so decoding a '
                      f'matrix corrupts it (a second decode / any later use sees a non-symplectic matrix)', m, st)
    else:
        rep.ok('SP5', MOD, f'{nfun} module functions never assign into / augment an array parameter', m, m.tree, text='parameter purity')
    f = proj.func(f'{MOD}.inverse')
    r = next((s for s in ast.walk(f.node) if isinstance(s, ast.Assign) and 'np.roll' in _t(s.value)), None)
    n += 1
    if r is None:
        rep.undecided('SP5', f.qual, 'np.roll expression not found', m, f.node, text='inverse')
        n -= 1
    elif _t(r.value) == 'np.roll(mat.T,N0,axis=(0,1))':
        n0 = next((s for s in ast.walk(f.node) if isinstance(s, ast.Assign) and isinstance(s.targets[0], ast.Name) and s.targets[0].id == 'N0'), None)
        if n0 is not None and _t(n0.value) == 'mat.shape[0]//2':
            rep.ok('SP5', f.qual, 'Lambda S^T Lambda = roll(S^T, n) on both axes', m, r)
        else:
            rep.violation('SP5', f.qual, 'the shift is not half the matrix size', m, r)
    else:
        rep.violation('SP5', f.qual, f'`{_t(r.value)}` is not np.roll(mat.T, N0, axis=(0,1)): the closed form Lambda S^T Lambda needs the transpose rolled by n '
                      f'along BOTH axes', m, r)
    rep.count('SP5.obligations', n)
    return n


class _Swap(ast.NodeTransformer):
    def visit_Name(self, n):
        if n.id == 'v0':
            return ast.copy_location(ast.Name(id='v1', ctx=n.ctx), n)
        if n.id == 'v1':
            return ast.copy_location(ast.Name(id='v0', ctx=n.ctx), n)
        return n


def sp6(proj, rep):
    rep.rule('SP6', RULES['SP6'])
    f = proj.func(f'{MOD}.find_transvection')
    m = f.module
    blocks = [s for s in ast.walk(f.node) if isinstance(s, ast.If) and _t(s.test) == 'len(tmp0)' and not s.orelse]
    if len(blocks) != 2:
        rep.undecided('SP6', f.qual, f'{len(blocks)} `if len(tmp0):` blocks found (expected 2)', m, f.node, text='twin blocks')
        return 0
    a, b = blocks
    a2 = _Swap().visit(ast.parse(ast.unparse(a)))
    if ast.dump(a2) == ast.dump(ast.parse(ast.unparse(b))):
        rep.ok('SP6', f.qual, 'v0-side and v1-side blocks identical up to v0 <-> v1', m, a)
    else:
        # locate first differing line
        la, lb = ast.unparse(a2).splitlines(), ast.unparse(b).splitlines()
        d = next((i for i, (x, y) in enumerate(zip(la, lb)) if x != y), min(len(la), len(lb)) - 1)
        rep.violation('SP6', f.qual, f'the v1-side block differs from the v0-side block after renaming v0 <-> v1: `{lb[d].strip() if d < len(lb) else ""}` where the '
                      f'twin has `{la[d].strip() if d < len(la) else ""}`: one of the two places (00 in v0 / 00 in v1) is fixed with the wrong vector', m, b)
    return 1
