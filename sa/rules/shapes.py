"""SH1 — batch-axis discipline of the functional trivialization maps (C01: "a batched call equals the per-sample calls").

A small symbolic shape inference over the NumPy/PyTorch subset the manifold maps use.  A shape is a tuple of dims; a dim
is 'B' (the batch axis: axis 0 of theta after `theta.reshape(-1, L)` / `batch = theta.shape[0]`), the integer 1, or an
opaque symbol.  The only thing that is REPORTED is an elementwise operation (or masked broadcast) that right-aligns the
batch axis 'B' with an axis that is neither 'B' nor 1: for a batch of size >= 2 NumPy either raises or silently forms an
outer product over the batch - in both cases the batched call is not the per-sample call.  Everything the inference does not
understand is Unknown and never reported.
"""
import ast
import itertools

RULE_SH1 = ('SH1: in the functional maps no elementwise operation right-aligns the batch axis with a non-batch axis of another operand '
            '(e.g. `ct[:, i] * X[:, 0]` with shapes (B,) and (B, C)); per-sample quantities that multiply batched matrices keep an explicit '
            'singleton axis.')

UNK = None
_fresh = itertools.count()


def sym(prefix='s'):
    return f'{prefix}{next(_fresh)}'


ELEMENTWISE = {'cos', 'sin', 'exp', 'sqrt', 'abs', 'log', 'cumprod', 'cumsum', 'conj', 'real', 'imag', 'square', 'sign', 'log1p', 'expit',
               'softplus', 'sigmoid', 'maximum', 'minimum'}


class ShapeEval:
    def __init__(self, fi, rep, mod):
        self.fi, self.rep, self.m = fi, rep, mod
        self.env = {}        # name -> shape tuple | ('tuple', [shapes]) | ('list', elem shape)
        self.nops = 0
        self.reported = set()

    # ---- helpers
    def bcast(self, a, b, node):
        if a is UNK or b is UNK or not isinstance(a, tuple) or not isinstance(b, tuple):
            return UNK
        if a and a[0] in ('tuple', 'list') or b and b[0] in ('tuple', 'list'):
            return UNK
        self.nops += 1
        out = []
        la, lb = len(a), len(b)
        if 'B' in a and 'B' in b:
            pa = la - 1 - max(i for i, d in enumerate(a) if d == 'B')
            pb = lb - 1 - max(i for i, d in enumerate(b) if d == 'B')
            if pa != pb:
                self.report(node, f'`{ast.unparse(node)[:80]}` combines shapes {fmt(a)} and {fmt(b)}: the batch axes of the two operands are not '
                            f'aligned (broadcasting pairs one batch axis with a singleton/other axis), so for a batch of 2 or more the result is an '
                            f'outer product over the batch or a shape error - the batched call is not the per-sample call')
                return UNK
        for i in range(1, max(la, lb) + 1):
            x = a[-i] if i <= la else 1
            y = b[-i] if i <= lb else 1
            if x == y:
                out.append(x)
            elif x == 1:
                out.append(y)
            elif y == 1:
                out.append(x)
            else:
                if 'B' in (x, y):
                    self.report(node, f'`{ast.unparse(node)[:80]}` combines shapes {fmt(a)} and {fmt(b)}: the batch axis is right-aligned with a '
                                f'non-batch axis, so for a batch of 2 or more the call raises (or forms an outer product over the batch) - the '
                                f'batched call is not the per-sample call')
                    return UNK
                out.append(x)     # unknown relation between two opaque symbols: assume compatible
        return tuple(reversed(out))

    def report(self, node, msg):
        st = node
        while not isinstance(st, ast.stmt):
            st = getattr(st, '_parent')
        key = st.lineno
        if key in self.reported:
            return
        self.reported.add(key)
        self.rep.violation('SH1', self.fi.qual, msg, self.m, st)

    # ---- expressions
    def ev(self, e):
        if isinstance(e, ast.Constant):
            return ()
        if isinstance(e, ast.Name):
            return self.env.get(e.id, UNK)
        if isinstance(e, ast.UnaryOp):
            return self.ev(e.operand)
        if isinstance(e, ast.BinOp):
            if isinstance(e.op, ast.MatMult):
                a, b = self.ev(e.left), self.ev(e.right)
                if isinstance(a, tuple) and isinstance(b, tuple) and len(a) >= 2 and len(b) >= 2 and a[0] not in ('tuple', 'list') and b[0] not in ('tuple', 'list'):
                    return a[:-1] + b[-1:]
                return UNK
            return self.bcast(self.ev(e.left), self.ev(e.right), e)
        if isinstance(e, ast.Tuple):
            return ('tuple', [self.ev(x) for x in e.elts])
        if isinstance(e, ast.Attribute):
            if e.attr in ('real', 'imag'):
                return self.ev(e.value)
            if e.attr == 'shape':
                return 'SHAPE'
            if e.attr in ('ndim', 'size', 'pi'):
                return ()
            return UNK
        if isinstance(e, ast.Subscript):
            base = self.ev(e.value)
            if base == 'SHAPE':
                return 'SHAPE' if isinstance(e.slice, ast.Slice) else ()
            if base is UNK:
                return UNK
            if isinstance(base, tuple) and base and base[0] == 'tuple':
                if isinstance(e.slice, ast.Constant) and isinstance(e.slice.value, int) and e.slice.value < len(base[1]):
                    return base[1][e.slice.value]
                return UNK
            if isinstance(base, tuple) and base and base[0] == 'list':
                return UNK
            idx = list(e.slice.elts) if isinstance(e.slice, ast.Tuple) else [e.slice]
            out = []
            k = 0
            for ix in idx:
                if isinstance(ix, ast.Constant) and ix.value is None or (isinstance(ix, ast.Attribute) and ix.attr == 'newaxis'):
                    out.append(1)
                    continue
                if isinstance(ix, ast.Constant) and ix.value is Ellipsis:
                    return UNK
                if k >= len(base):
                    return UNK
                if isinstance(ix, ast.Slice):
                    if ix.lower is None and ix.upper is None and ix.step is None:
                        out.append(base[k])
                    else:
                        out.append(1 if _unit_slice(ix) else sym())
                    k += 1
                elif isinstance(ix, (ast.Constant, ast.Name, ast.BinOp, ast.UnaryOp)):
                    # scalar index drops the axis (a Name could be an index array: then rank is unknown)
                    if isinstance(ix, ast.Name) and self.env.get(ix.id, ()) not in ((), UNK):
                        return UNK
                    k += 1
                else:
                    return UNK
            out.extend(base[k:])
            return tuple(out)
        if isinstance(e, ast.Call):
            f = e.func
            fname = f.attr if isinstance(f, ast.Attribute) else (f.id if isinstance(f, ast.Name) else None)
            if isinstance(f, ast.Name) and fname in ('len', 'int', 'float', 'abs', 'min', 'max') and fname != 'abs':
                return ()
            # method calls on arrays
            if isinstance(f, ast.Attribute) and fname in ('reshape', 'view'):
                args = e.args[0].elts if len(e.args) == 1 and isinstance(e.args[0], (ast.Tuple, ast.List)) else e.args
                return tuple(self.dim(a) for a in args)
            if isinstance(f, ast.Attribute) and fname in ('conj', 'copy', 'clone', 'resolve_conj', 'to', 'astype', 'contiguous'):
                return self.ev(f.value)
            if fname in ELEMENTWISE and e.args:
                vals = [self.ev(a) for a in e.args if not isinstance(a, ast.keyword)]
                r = vals[0]
                for v in vals[1:]:
                    r = self.bcast(r, v, e)
                return r
            if fname in ('concatenate', 'concat', 'cat') and e.args and isinstance(e.args[0], ast.List):
                ax = _axis(e)
                shapes = [self.ev(x) for x in e.args[0].elts]
                if ax is None and not any(k.arg in ('axis', 'dim') for k in e.keywords) and len(e.args) == 1 and len(shapes) >= 2 \
                        and all(isinstance(s, tuple) and len(s) >= 2 and s[0] == 'B' for s in shapes):
                    self.nops += 1
                    self.report(e, f'`{ast.unparse(e)[:70]}` concatenates batched arrays {", ".join(fmt(s) for s in shapes)} without an axis: the default axis 0 is the '
                                f'BATCH axis, so samples are stacked behind each other and a later reshape pairs entries of different samples')
                    return UNK
                if any(s is UNK or not isinstance(s, tuple) or (s and s[0] in ('tuple', 'list')) for s in shapes) or ax is None:
                    return UNK
                rank = len(shapes[0])
                if any(len(s) != rank for s in shapes):
                    return UNK
                ax = ax % rank
                out = list(shapes[0])
                out[ax] = sym()
                return tuple(out)
            if fname == 'stack' and e.args:
                ax = _axis(e)
                if ax is None:
                    ax = 0
                el = self.ev(e.args[0]) if isinstance(e.args[0], ast.Name) else None
                if isinstance(e.args[0], ast.List) and e.args[0].elts:
                    el = ('list', self.ev(e.args[0].elts[0]))
                if isinstance(el, tuple) and el and el[0] == 'list' and isinstance(el[1], tuple) and not (el[1] and el[1][0] in ('tuple', 'list')):
                    s = list(el[1])
                    ax = ax % (len(s) + 1)
                    s.insert(ax, sym())
                    return tuple(s)
                return UNK
            if fname in ('zeros', 'ones') and e.args:
                return UNK
            if fname in ('eigvalsh', 'eigvals') and e.args:
                a = self.ev(e.args[0])
                if isinstance(a, tuple) and len(a) >= 2 and a[0] not in ('tuple', 'list'):
                    return a[:-1]
                return UNK
            if fname == 'eigh' and e.args:
                a = self.ev(e.args[0])
                if isinstance(a, tuple) and len(a) >= 2 and a[0] not in ('tuple', 'list'):
                    return ('tuple', [a[:-1], a])
                return UNK
            return UNK
        return UNK

    def dim(self, a):
        t = ast.unparse(a).replace(' ', '')
        if t in ('batch', 'N1', 'theta.shape[0]') and self.env.get('<batchname:' + t):
            return 'B'
        if t == '1':
            return 1
        if t == '-1':
            return 'B' if getattr(self, 'minus1_is_batch', False) else sym()
        return 'e:' + t

    # ---- statements
    def run(self, body):
        for st in body:
            if isinstance(st, ast.Assign):
                v = self.ev(st.value)
                for t in st.targets:
                    self.assign(t, v, st)
            elif isinstance(st, ast.AugAssign):
                cur = self.ev(st.target) if isinstance(st.target, ast.Name) else UNK
                v = self.bcast(cur, self.ev(st.value), st)
                if isinstance(st.target, ast.Name):
                    self.env[st.target.id] = v
            elif isinstance(st, ast.Expr):
                c = st.value
                if isinstance(c, ast.Call) and isinstance(c.func, ast.Attribute) and c.func.attr == 'append' and isinstance(c.func.value, ast.Name) and c.args:
                    nm = c.func.value.id
                    v = self.ev(c.args[0])
                    cur = self.env.get(nm)
                    if isinstance(cur, tuple) and cur and cur[0] == 'list':
                        self.env[nm] = ('list', v if cur[1] in (UNK, 'empty') or cur[1] == v else cur[1])
                    else:
                        self.env[nm] = ('list', v)
                else:
                    self.ev(c)
            elif isinstance(st, ast.If):
                # both arms, sequentially (shapes are meant to be arm-invariant); `ret is None` first-iteration arms included
                self.run(st.body)
                self.run(st.orelse)
            elif isinstance(st, (ast.For, ast.While)):
                if isinstance(st, ast.For):
                    it = st.iter
                    # for a, b in list_of_tuples : element shapes from the list comprehension that built the list
                    if isinstance(st.target, ast.Name):
                        self.env[st.target.id] = self.elem_of(it)
                    elif isinstance(st.target, ast.Tuple):
                        el = self.elem_of(it)
                        for i, t in enumerate(st.target.elts):
                            if isinstance(t, ast.Name):
                                self.env[t.id] = el[1][i] if isinstance(el, tuple) and el and el[0] == 'tuple' and i < len(el[1]) else UNK
                # two passes so that loop-carried shapes (ret) are seen with their steady-state value
                self.run(st.body)
                self.run(st.body)
            elif isinstance(st, ast.Return):
                if st.value is not None:
                    self.ev(st.value)
            elif isinstance(st, (ast.With,)):
                self.run(st.body)

    def elem_of(self, it):
        if isinstance(it, ast.Name):
            v = self.env.get(it.id)
            if isinstance(v, tuple) and v and v[0] == 'list':
                return v[1]
            return UNK
        if isinstance(it, ast.Call) and isinstance(it.func, ast.Name) and it.func.id == 'range':
            return ()
        return UNK

    def assign(self, t, v, st):
        if isinstance(t, ast.Name):
            val = st.value
            # batch = theta.shape[0]
            if ast.unparse(val).replace(' ', '') in ('theta.shape[0]',) and self.env.get('theta') not in (UNK, None):
                self.env['<batchname:' + t.id] = True
                self.env[t.id] = ()
                return
            if isinstance(val, ast.List) and not val.elts:
                self.env[t.id] = ('list', 'empty')
                return
            if isinstance(val, ast.ListComp):
                # [theta[:, x:y] for x, y in ...] / [(theta[:,x:y,0], theta[:,x:y,1]) for ...]
                saved = dict(self.env)
                for g in val.generators:
                    for nm in ast.walk(g.target):
                        if isinstance(nm, ast.Name):
                            self.env[nm.id] = ()
                el = self.ev(val.elt)
                self.env = saved
                self.env[t.id] = ('list', el)
                return
            if isinstance(val, ast.Constant) and val.value is None:
                return            # `ret = None` placeholder: keep unknown so that the first real binding defines it
            self.env[t.id] = v
        elif isinstance(t, ast.Tuple):
            for i, e in enumerate(t.elts):
                if isinstance(e, ast.Name):
                    self.env[e.id] = v[1][i] if isinstance(v, tuple) and v and v[0] == 'tuple' and i < len(v[1]) else UNK


def _unit_slice(s):
    lo = ast.unparse(s.lower).replace(' ', '') if s.lower is not None else None
    hi = ast.unparse(s.upper).replace(' ', '') if s.upper is not None else None
    if lo is None and hi == '1':
        return True
    if lo == '-1' and hi is None:
        return True
    if lo is not None and hi in (f'{lo}+1', f'({lo}+1)', f'({lo})+1'):
        return True
    return False


def _axis(call):
    for k in call.keywords:
        if k.arg in ('axis', 'dim') and isinstance(k.value, (ast.Constant, ast.UnaryOp)):
            try:
                return ast.literal_eval(k.value)
            except Exception:
                return None
    if len(call.args) >= 2 and isinstance(call.args[1], (ast.Constant, ast.UnaryOp)):
        try:
            return ast.literal_eval(call.args[1])
        except Exception:
            return None
    return None


def fmt(s):
    return '(' + ', '.join(str(d) if not str(d).startswith('e:') else str(d)[2:] for d in s) + (',' if len(s) == 1 else '') + ')'


def sh1(proj, rep, func_quals):
    rep.rule('SH1', RULE_SH1)
    total = 0
    for q in func_quals:
        fi = proj.func(q)
        m = fi.module
        rep.touch(m)
        se = ShapeEval(fi, rep, m)
        se.minus1_is_batch = True
        # theta is (B, L) once the function has flattened the batch: `theta = theta.reshape(-1, shape[-1])` or by contract (helpers)
        se.env['theta'] = ('B', sym('L'))
        se.env['<batchname:batch'] = True
        se.env['<batchname:N1'] = True
        body = fi.node.body
        se.run(body)
        total += se.nops
        if not se.reported:
            rep.ok('SH1', q, f'{se.nops} elementwise operations typed; the batch axis is never aligned with a non-batch axis', m, fi.node, text=f'{q} batch axis')
    rep.count('SH1.elementwise_ops_typed', total)
    return len(func_quals), total


def sh1b(proj, rep, func_quals):
    """SH1 for functions that flatten their own batch with `x.reshape(-1, n, n)`: the -1 axis is the batch axis."""
    rep.rule('SH1', RULE_SH1)
    total = 0
    nf = 0
    for q in func_quals:
        fi = proj.func(q)
        m = fi.module
        rep.touch(m)
        se = ShapeEval(fi, rep, m)
        se.minus1_is_batch = True
        se.run(fi.node.body)
        total += se.nops
        nf += 1
        if not se.reported:
            rep.ok('SH1', q, f'{se.nops} elementwise operations typed; the batch axis is never aligned with a non-batch axis', m, fi.node, text=f'{q} batch axis')
    rep.count('SH1.batched_boundary_ops_typed', total)
    return nf, total


# ------------------------------------------------------------------------------------------------ SH2
RULE_SH2 = ('SH2: in the Euler-Hurwitz recursion every `concat([...], axis=1).reshape(batch, W, 1)` has exactly W columns for EVERY '
            'admissible block width N0 = theta_i.shape[1]: the piece widths are evaluated as exact functions of N0 (Python slice semantics, '
            'broadcasting, concatenation) over the admissible range, which is read from the block list `arange(dim-rank, dim)` and the '
            'constructor assertion on rank (rank==dim admits the empty block N0 = 0) minus the widths excluded by a guard such as '
            '`if N0==0: ...; continue`.')

_ELEM1 = {'cos', 'sin', 'exp', 'cumsum', 'cumprod', 'conj', 'abs', 'sqrt'}


class _WidthEval:
    """width (size of axis 1) of the 2-d arrays of one loop body, as a function of N (the block width)."""

    def __init__(self, env, N):
        self.env, self.N = env, N

    def const(self, e):
        if e is None:
            return None
        try:
            return int(eval(compile(ast.Expression(e), '<w>', 'eval'), {'__builtins__': {}}, {'N0': self.N}))
        except Exception:
            raise _Unknown(ast.unparse(e))

    def w(self, e):
        if isinstance(e, ast.Name):
            if e.id in self.env:
                return self.env[e.id]
            raise _Unknown(e.id)
        if isinstance(e, ast.Constant):
            return 'scalar'
        if isinstance(e, ast.UnaryOp):
            return self.w(e.operand)
        if isinstance(e, ast.BinOp):
            a, b = self.w(e.left), self.w(e.right)
            if a == 'scalar':
                return b
            if b == 'scalar':
                return a
            if a == b or b == 1:
                return a
            if a == 1:
                return b
            raise _Mismatch(f'`{ast.unparse(e)[:70]}` combines widths {a} and {b}')
        if isinstance(e, ast.Subscript):
            base = self.w(e.value)
            sl = e.slice
            if isinstance(sl, ast.Tuple) and len(sl.elts) >= 2 and isinstance(sl.elts[0], ast.Slice) and isinstance(sl.elts[1], ast.Slice):
                s1 = sl.elts[1]
                if s1.step is not None:
                    raise _Unknown('step')
                return len(range(base)[slice(self.const(s1.lower), self.const(s1.upper))])
            raise _Unknown(ast.unparse(e))
        if isinstance(e, ast.Call):
            f = e.func
            name = f.attr if isinstance(f, ast.Attribute) else getattr(f, 'id', '')
            if name in _ELEM1 and e.args:
                return self.w(e.args[0])
            if name in ('concat', 'concatenate', 'cat') and e.args and isinstance(e.args[0], (ast.List, ast.Tuple)):
                ax = _axis(e)
                if ax != 1:
                    raise _Unknown('axis')
                return sum(self.w(x) for x in e.args[0].elts)
            if name in ('zeros', 'ones'):
                shp = e.args[0] if e.args else None
                elts = shp.elts if isinstance(shp, (ast.Tuple, ast.List)) else e.args
                if len(elts) >= 2:
                    return self.const(elts[1])
            raise _Unknown(ast.unparse(e)[:40])
        raise _Unknown(ast.unparse(e)[:40])


class _Unknown(Exception):
    pass


class _Mismatch(Exception):
    pass


def _excluded_widths(body, upto, name):
    """widths excluded by `if N0==k: ...; continue` guards that precede statement index `upto`"""
    out = set()
    for st in body[:upto]:
        if isinstance(st, ast.If) and isinstance(st.test, ast.Compare) and len(st.test.ops) == 1 and isinstance(st.test.ops[0], ast.Eq) \
                and isinstance(st.test.left, ast.Name) and st.test.left.id == name and isinstance(st.test.comparators[0], ast.Constant) \
                and st.body and isinstance(st.body[-1], (ast.Continue, ast.Return, ast.Raise)) and not st.orelse:
            out.add(st.test.comparators[0].value)
    return out


def sh2(proj, rep):
    rep.rule('SH2', RULE_SH2)
    n = 0
    # admissible minimum width: blocks are arange(dim-rank, dim); the class admits rank<=dim
    ci = proj.cls('numqi.manifold._stiefel.Stiefel')
    init = ci.methods['__init__'].node
    asserts = [ast.unparse(s.test).replace(' ', '') for s in ast.walk(init) if isinstance(s, ast.Assert)]
    if any('rank<=dim' in a for a in asserts):
        wmin = 0
    elif any('rank<dim' in a for a in asserts):
        wmin = 1
    else:
        rep.undecided('SH2', 'numqi.manifold._stiefel.Stiefel.__init__', 'no assertion relating rank and dim: admissible block widths unknown',
                      ci.module, init, text='rank/dim assertion')
        return 0
    for q in ('numqi.manifold._stiefel._to_stiefel_euler_real', 'numqi.manifold._stiefel._to_stiefel_euler_complex'):
        fi = proj.func(q)
        m = fi.module
        rep.touch(m)
        blocks = [s for s in ast.walk(fi.node) if isinstance(s, ast.Assign) and 'np.arange(dim-rank,dim)' in ast.unparse(s.value).replace(' ', '')]
        if not blocks:
            rep.undecided('SH2', q, 'block widths are no longer `arange(dim-rank, dim)`', m, fi.node, text='block list')
            continue
        for loop in [s for s in ast.walk(fi.node) if isinstance(s, ast.For) and 'theta_list' in ast.unparse(s.iter)]:
            tnames = [x.id for x in ast.walk(loop.target) if isinstance(x, ast.Name)]
            wname = None
            for idx, st in enumerate(loop.body):
                if isinstance(st, ast.Assign) and isinstance(st.targets[0], ast.Name) and ast.unparse(st.value).replace(' ', '') in {f'{t}.shape[1]' for t in tnames}:
                    wname = st.targets[0].id
            if wname is None:
                rep.undecided('SH2', q, 'block width variable not found', m, loop, text='N0')
                continue
            for idx, st in enumerate(loop.body):
                if not (isinstance(st, ast.Assign) and isinstance(st.targets[0], ast.Name)):
                    continue
                v = st.value
                if not (isinstance(v, ast.Call) and isinstance(v.func, ast.Attribute) and v.func.attr == 'reshape' and len(v.args) == 3):
                    continue
                n += 1
                excl = _excluded_widths(loop.body, idx, wname)
                dom = [k for k in range(wmin, 7) if k not in excl]
                bad = None
                try:
                    for N in dom:
                        env = {t: N for t in tnames}
                        for st2 in loop.body[:idx]:
                            if isinstance(st2, ast.Assign) and isinstance(st2.targets[0], ast.Name) and st2.targets[0].id != wname:
                                try:
                                    env[st2.targets[0].id] = _WidthEval(env, N).w(st2.value)
                                except _Unknown:
                                    env.pop(st2.targets[0].id, None)
                        ev = _WidthEval(env, N)
                        try:
                            got = ev.w(v.func.value)
                        except _Mismatch as ex:
                            bad = (N, str(ex))
                            break
                        want = _WidthEval({}, N)
                        want_w = eval(compile(ast.Expression(v.args[1]), '<w>', 'eval'), {'__builtins__': {}}, {wname: N})
                        if got != want_w:
                            bad = (N, f'the concatenated pieces have {got} columns but the reshape asks for {want_w}')
                            break
                except _Unknown as ex:
                    rep.undecided('SH2', q, f'`{ast.unparse(st)[:70]}`: width of `{ex}` not understood', m, st)
                    n -= 1
                    continue
                except Exception as ex:
                    rep.undecided('SH2', q, f'`{ast.unparse(st)[:70]}`: {type(ex).__name__}', m, st)
                    n -= 1
                    continue
                if bad:
                    N, why = bad
                    what = 'rank==dim, the empty first block' if N == 0 else f'block width {N}'
                    rep.violation('SH2', q, f'`{ast.unparse(st)[:90]}`: for {wname} = {N} ({what}) {why}: the map raises instead of returning a '
                                  f'Stiefel point', m, st)
                else:
                    rep.ok('SH2', q, f'`{ast.unparse(st)[:60]}` has {ast.unparse(v.args[1])} columns for every {wname} in {dom[0]}..', m, st)
    rep.count('SH2.reshape_sites', n)
    return n


# ------------------------------------------------------------------------------------------------ SH3
RULE_SH3 = ('SH3: axes are split in the order in which they were merged. Size names bound from `X.shape[k]` carry the identity of that axis; when an array '
            'whose axis is the merge (a*b) of two such axes is reshaped into separate sizes, the sizes must name a then b. Splitting as (b, a) is '
            'accepted by NumPy whenever a*b matches but scrambles the entries for every non-square case (a != b).')


class _RoleUnknown(Exception):
    pass


class _RoleEval:
    def __init__(self, fn, summaries):
        self.fn = fn
        self.env = {}        # array name -> list of axes; axis = tuple of atoms
        self.size = {}       # size name -> atom
        self.summaries = summaries
        self.fresh = itertools.count()

    def atom_of_size(self, e):
        """list of atoms a size expression stands for (product), or None for -1"""
        if isinstance(e, ast.UnaryOp) and isinstance(e.op, ast.USub) and isinstance(e.operand, ast.Constant) and e.operand.value == 1:
            return None
        if isinstance(e, ast.Name):
            if e.id in self.size:
                return [self.size[e.id]]
            raise _RoleUnknown(e.id)
        if isinstance(e, ast.BinOp) and isinstance(e.op, ast.Mult):
            a, b = self.atom_of_size(e.left), self.atom_of_size(e.right)
            if a is None or b is None:
                raise _RoleUnknown('-1 in product')
            return a + b
        if isinstance(e, ast.Subscript) and isinstance(e.value, ast.Attribute) and e.value.attr == 'shape' and isinstance(e.value.value, ast.Name) \
                and isinstance(e.slice, ast.Constant) and e.value.value.id in self.env:
            ax = self.env[e.value.value.id]
            k = e.slice.value
            if -len(ax) <= k < len(ax):
                return list(ax[k])
        raise _RoleUnknown(ast.unparse(e)[:30])

    def ev(self, e):
        if isinstance(e, ast.Name):
            if e.id in self.env:
                return self.env[e.id]
            raise _RoleUnknown(e.id)
        if isinstance(e, ast.Attribute) and e.attr == 'T':
            return list(reversed(self.ev(e.value)))
        if isinstance(e, ast.Attribute) and e.attr in ('real', 'imag'):
            return self.ev(e.value)
        if isinstance(e, ast.BinOp) and isinstance(e.op, ast.MatMult):
            a, b = self.ev(e.left), self.ev(e.right)
            if len(a) == 2 and len(b) == 2:
                return [a[0], b[1]]
            raise _RoleUnknown('matmul rank')
        if isinstance(e, ast.Subscript) and isinstance(e.value, ast.Call) and isinstance(e.slice, ast.Constant):
            name = ast.unparse(e.value.func).split('.')[-1]
            if name in self.summaries and e.slice.value in self.summaries[name] and e.value.args and isinstance(e.value.args[0], ast.Name):
                src = self.ev(e.value.args[0])
                return [(f'#{next(self.fresh)}',)] + list(src[1:])
            raise _RoleUnknown(name)
        if isinstance(e, ast.Call) and isinstance(e.func, ast.Attribute) and e.func.attr in ('conj', 'conjugate', 'copy') and not e.args:
            return self.ev(e.func.value)
        if isinstance(e, ast.Call) and isinstance(e.func, ast.Attribute) and e.func.attr == 'reshape':
            src = self.ev(e.func.value)
            args = e.args[0].elts if len(e.args) == 1 and isinstance(e.args[0], (ast.Tuple, ast.List)) else e.args
            return self.reshape(src, list(args), e)
        raise _RoleUnknown(ast.unparse(e)[:30])

    def reshape(self, src, args, node):
        flat = [a for ax in src for a in ax]
        group_of = {}
        for gi, ax in enumerate(src):
            for a in ax:
                group_of[a] = gi
        want = [self.atom_of_size(a) for a in args]
        out = []
        i = 0
        for j, w in enumerate(want):
            if w is None:
                rest = sum(len(x) for x in want[j + 1:] if x is not None)
                k = len(flat) - rest - i
                if k < 0:
                    raise _RoleUnknown('-1 size')
                out.append(tuple(flat[i:i + k]))
                i += k
                continue
            seg = flat[i:i + len(w)]
            if len(seg) < len(w):
                raise _RoleUnknown('reshape runs out of axes')
            if len(w) == 1:
                if seg[0] != w[0]:
                    # a single requested axis that is another member of the same merged group -> wrong split order
                    if w[0] in flat and group_of.get(w[0]) == group_of.get(seg[0]) and len(src[group_of[seg[0]]]) > 1:
                        raise _SplitOrder(f'`{ast.unparse(node)[:90]}` splits the merged axis {"*".join(src[group_of[seg[0]]])} starting with `{ast.unparse(args[j])}` '
                                          f'(= {w[0]}) where the first factor of the merge is {seg[0]}')
                    raise _RoleUnknown('axis mismatch')
            else:
                if sorted(seg) != sorted(w):
                    raise _RoleUnknown('merged product mismatch')
            out.append(tuple(seg))
            i += len(w)
        if i != len(flat):
            raise _RoleUnknown('reshape leaves axes')
        return out


class _SplitOrder(Exception):
    pass


def sh3(proj, rep, modules, summaries=None):
    """summaries: {callee name: {tuple index: 'same trailing axes as first argument'}}"""
    rep.rule('SH3', RULE_SH3)
    summaries = summaries or {'get_matrix_orthogonal_basis': {0, 1}}
    nsites = 0
    nfun = 0
    for mq in modules:
        m = proj.mod(mq)
        rep.touch(m)
        for fi in [f for f in proj.funcs.values() if f.module is m and f.cls is None]:
            ev = _RoleEval(fi.node, summaries)
            # parameter ranks from `assert p.ndim==k`
            for st in ast.walk(fi.node):
                if isinstance(st, ast.Assert):
                    for c in ast.walk(st.test):
                        if isinstance(c, ast.Compare) and isinstance(c.left, ast.Attribute) and c.left.attr == 'ndim' and isinstance(c.left.value, ast.Name) \
                                and c.left.value.id in fi.all_params and len(c.ops) == 1 and isinstance(c.ops[0], ast.Eq) and isinstance(c.comparators[0], ast.Constant):
                            p = c.left.value.id
                            ev.env[p] = [(f'{p}.{k}',) for k in range(c.comparators[0].value)]
            if not ev.env:
                continue
            typed = 0
            bad = False
            for st in fi.node.body:
                if not isinstance(st, ast.Assign):
                    # look for reshape calls inside other statements (call arguments)
                    cands = [c for c in ast.walk(st) if isinstance(c, ast.Call) and isinstance(c.func, ast.Attribute) and c.func.attr == 'reshape']
                else:
                    cands = [c for c in ast.walk(st.value) if isinstance(c, ast.Call) and isinstance(c.func, ast.Attribute) and c.func.attr == 'reshape']
                for c in cands:
                    try:
                        ev.ev(c)
                        typed += 1
                    except _SplitOrder as ex:
                        typed += 1
                        bad = True
                        rep.violation('SH3', fi.qual, f'{ex}: for a non-square input the entries are scrambled (NumPy accepts the reshape because the product of the '
                                      f'sizes matches)', m, st)
                    except _RoleUnknown:
                        pass
                if isinstance(st, ast.Assign):
                    t = st.targets[0]
                    v = st.value
                    # size bindings
                    if isinstance(t, ast.Name) and isinstance(v, ast.Subscript) and isinstance(v.value, ast.Attribute) and v.value.attr == 'shape' \
                            and isinstance(v.value.value, ast.Name) and v.value.value.id in ev.env and isinstance(v.slice, ast.Constant):
                        ax = ev.env[v.value.value.id]
                        k = v.slice.value
                        if -len(ax) <= k < len(ax) and len(ax[k]) == 1:
                            ev.size[t.id] = ax[k][0]
                        continue
                    if isinstance(t, ast.Tuple) and all(isinstance(x, ast.Name) for x in t.elts):
                        src = None
                        if isinstance(v, ast.Attribute) and v.attr == 'shape' and isinstance(v.value, ast.Name) and v.value.id in ev.env:
                            src = ev.env[v.value.id]
                        elif isinstance(v, ast.Subscript) and isinstance(v.value, ast.Attribute) and v.value.attr == 'shape' and isinstance(v.value.value, ast.Name) \
                                and v.value.value.id in ev.env and isinstance(v.slice, ast.Slice):
                            full = ev.env[v.value.value.id]
                            lo = v.slice.lower.value if isinstance(v.slice.lower, ast.Constant) else (-v.slice.lower.operand.value if isinstance(v.slice.lower, ast.UnaryOp) else None)
                            hi = v.slice.upper.value if isinstance(v.slice.upper, ast.Constant) else (None if v.slice.upper is None else 'x')
                            if hi != 'x' and (lo is not None or v.slice.lower is None):
                                src = full[slice(lo, hi)]
                        if src is not None and len(src) == len(t.elts):
                            for x, ax in zip(t.elts, src):
                                if len(ax) == 1:
                                    ev.size[x.id] = ax[0]
                        continue
                    if isinstance(t, ast.Name):
                        try:
                            ev.env[t.id] = ev.ev(v)
                        except (_RoleUnknown, _SplitOrder):
                            ev.env.pop(t.id, None)
            if typed:
                nfun += 1
                nsites += typed
                if not bad:
                    rep.ok('SH3', fi.qual, f'{typed} reshape(s) split merged axes in merge order', m, fi.node, text=f'{fi.qual} split order')
    rep.count('SH3.functions', nfun)
    rep.count('SH3.reshape_sites', nsites)
    return nfun, nsites


# ------------------------------------------------------------------------------------------------ SH4
RULE_SH4 = ('SH4: a function whose array argument carries its data on the LAST axis and supports leading batch axes (it asserts `x.ndim>=1` and uses '
            '`x.shape[-1]`) slices that argument with an Ellipsis / full tuple: `x[..., a:b]`. A bare `x[a:b]` slices the FIRST axis: identical for a single '
            'vector, but for a batch it drops rows (operators) instead of columns.')


def sh4(proj, rep, modules):
    rep.rule('SH4', RULE_SH4)
    n = 0
    for mq in modules:
        m = proj.mod(mq)
        rep.touch(m)
        for fi in [f for f in proj.funcs.values() if f.module is m and f.cls is None]:
            cand = set()
            for a in [s for s in fi.node.body if isinstance(s, ast.Assert)]:
                t = ast.unparse(a.test).replace(' ', '')
                for p in fi.all_params:
                    if f'{p}.ndim>=1' in t and f'{p}.shape[-1]' in t:
                        cand.add(p)
            for p in cand:
                for s in fi.node.body:
                    # only before the array is flattened to 2-D by the function itself
                    if isinstance(s, ast.Assign) and any(isinstance(t, ast.Name) and t.id == p for t in s.targets) and 'reshape' in ast.unparse(s.value):
                        break
                    for x in ast.walk(s):
                        if isinstance(x, ast.Subscript) and isinstance(x.value, ast.Name) and x.value.id == p and isinstance(x.ctx, ast.Load):
                            # inside `if p.ndim==1:` the first axis IS the last axis
                            guarded = False
                            cur = x
                            while hasattr(cur, '_parent') and cur is not fi.node:
                                cur = cur._parent
                                if isinstance(cur, ast.If) and f'{p}.ndim==1' in ast.unparse(cur.test).replace(' ', ''):
                                    guarded = True
                            if guarded:
                                continue
                            sl = x.slice
                            if isinstance(sl, ast.Slice):
                                n += 1
                                rep.violation('SH4', fi.qual, f'`{ast.unparse(x)}` slices the FIRST axis of `{p}`, whose data axis is the last one (`{p}.shape[-1]`, '
                                              f'`{p}.ndim>=1`): for a batch this drops whole operators instead of the leading columns', m, s)
                            elif isinstance(sl, ast.Tuple) and sl.elts and isinstance(sl.elts[0], ast.Constant) and sl.elts[0].value is Ellipsis:
                                n += 1
                                rep.ok('SH4', fi.qual, f'`{ast.unparse(x)}` slices the last axis', m, s)
    rep.count('SH4.trailing_axis_slices', n)
    return n
