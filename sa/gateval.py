"""Evaluate *literal* gate-matrix expressions of numqi.gate to numbers (constant folding with numpy as the checker's
own arithmetic).  Only literal displays, np.array/np.kron/np.sqrt/np.exp/np.pi/np.eye/np.diag/np.block and references to
other module-level literal constants are followed; anything else raises NotLiteral."""
import ast
import numpy as np
from .project import dotted_parts


class NotLiteral(Exception):
    pass


class GateEval:
    def __init__(self, proj):
        self.proj = proj
        self.cache = {}

    # ---- public
    def value(self, mod, expr):
        """numpy array for an expression written in module `mod`."""
        return self._ev(mod, expr, {}, 0)

    def named(self, dotted):
        """value of e.g. 'numqi.gate.X'."""
        parts = dotted.split('.')
        root = self.proj.mod(parts[0])
        return self._name(root, parts[1:], 0)

    # ---- implementation
    def _ev(self, mod, n, env, depth):
        if depth > 25:
            raise NotLiteral('depth')
        if isinstance(n, ast.Constant):
            if isinstance(n.value, (int, float, complex)) and not isinstance(n.value, bool):
                return n.value
            raise NotLiteral(repr(n.value))
        if isinstance(n, (ast.List, ast.Tuple)):
            return [self._ev(mod, e, env, depth + 1) for e in n.elts]
        if isinstance(n, ast.UnaryOp) and isinstance(n.op, (ast.USub, ast.UAdd)):
            v = self._arr(self._ev(mod, n.operand, env, depth + 1))
            return -v if isinstance(n.op, ast.USub) else v
        if isinstance(n, ast.BinOp):
            a = self._arr(self._ev(mod, n.left, env, depth + 1))
            b = self._arr(self._ev(mod, n.right, env, depth + 1))
            if isinstance(n.op, ast.Add):
                return a + b
            if isinstance(n.op, ast.Sub):
                return a - b
            if isinstance(n.op, ast.Mult):
                return a * b
            if isinstance(n.op, ast.Div):
                return a / b
            if isinstance(n.op, ast.MatMult):
                return a @ b
            if isinstance(n.op, ast.Pow):
                return a ** b
            raise NotLiteral(ast.unparse(n))
        if isinstance(n, ast.Name):
            if n.id in env:
                return env[n.id]
            return self._name(mod, [n.id], depth)
        if isinstance(n, ast.Attribute):
            parts = dotted_parts(n)
            if parts is None:
                if n.attr == 'T':
                    return self._arr(self._ev(mod, n.value, env, depth + 1)).T
                if n.attr == 'real':
                    return self._arr(self._ev(mod, n.value, env, depth + 1)).real
                raise NotLiteral(ast.unparse(n))
            if parts[0] in env:
                raise NotLiteral(ast.unparse(n))
            return self._name(mod, parts, depth)
        if isinstance(n, ast.Call):
            f = n.func
            if isinstance(f, ast.Attribute) and f.attr in ('conj', 'copy') and not n.args:
                v = self._arr(self._ev(mod, f.value, env, depth + 1))
                return v.conj() if f.attr == 'conj' else v
            r = self.proj.resolve_expr(mod, f) if dotted_parts(f) else None
            q = r.qual if r is not None and r.kind == 'external' else None
            args = None
            if q in ('numpy.array', 'numpy.asarray'):
                return np.array(self._ev(mod, n.args[0], env, depth + 1))
            if q == 'numpy.kron':
                return np.kron(*[self._arr(self._ev(mod, a, env, depth + 1)) for a in n.args])
            if q == 'numpy.sqrt':
                return np.sqrt(self._arr(self._ev(mod, n.args[0], env, depth + 1)))
            if q == 'numpy.exp':
                return np.exp(self._arr(self._ev(mod, n.args[0], env, depth + 1)))
            if q == 'numpy.eye':
                return np.eye(int(self._ev(mod, n.args[0], env, depth + 1)))
            if q == 'numpy.diag':
                return np.diag(self._arr(self._ev(mod, n.args[0], env, depth + 1)))
            if q == 'numpy.block':
                return np.block(self._ev(mod, n.args[0], env, depth + 1))
            if q == 'numpy.zeros' and n.args:
                return np.zeros(self._ev(mod, n.args[0], env, depth + 1))
            raise NotLiteral(ast.unparse(n))
        raise NotLiteral(ast.unparse(n))

    def _arr(self, v):
        return np.asarray(v)

    def _name(self, mod, parts, depth):
        key = (mod.name, tuple(parts))
        if key in self.cache:
            v = self.cache[key]
            if isinstance(v, Exception):
                raise v
            return v
        try:
            v = self._name_uncached(mod, parts, depth)
        except NotLiteral as e:
            self.cache[key] = e
            raise
        self.cache[key] = v
        return v

    def _name_uncached(self, mod, parts, depth):
        proj = self.proj
        r = proj.resolve_parts(mod, parts[:1])
        if r.kind == 'external':
            q = '.'.join([r.qual] + parts[1:])
            if q == 'numpy.pi':
                return np.pi
            raise NotLiteral(q)
        # walk modules
        cur_mod = mod
        i = 0
        bd = cur_mod.bindings.get(parts[0])
        while True:
            if bd is None:
                raise NotLiteral('.'.join(parts))
            if bd[0] in ('module', 'from'):
                rr = proj._from_binding(cur_mod, bd)
                if rr.kind == 'module':
                    cur_mod = rr.module
                    i += 1
                    if i >= len(parts):
                        raise NotLiteral('.'.join(parts))
                    bd = cur_mod.bindings.get(parts[i])
                    if bd is None:
                        sub = f'{cur_mod.name}.{parts[i]}'
                        if sub in proj.modules:
                            bd = ('module', sub)
                    continue
                if rr.kind == 'value':
                    # `from ._internal import X` -> value defined in another module
                    src_mod = rr.module
                    return self._value_binding(src_mod, rr.node, parts[i + 1:], depth)
                raise NotLiteral('.'.join(parts))
            if bd[0] == 'assign':
                return self._value_binding(cur_mod, bd[1], parts[i + 1:], depth)
            raise NotLiteral('.'.join(parts))

    def _value_binding(self, mod, valnode, rest, depth):
        """Module-level `NAME = <valnode>`; `rest` are further attribute accesses (e.g. pauli.sx)."""
        if valnode is None:
            raise NotLiteral('tuple binding')
        if not rest:
            return self._ev(mod, valnode, {}, depth + 1)
        # namespace built by a factory: pauli = _make_pauli() ; return SimpleNamespace(sx=sx, ...)
        if isinstance(valnode, ast.Call):
            r = self.proj.resolve_expr(mod, valnode.func)
            if r.kind == 'func':
                fn = r.node.node
                local = {}
                for st in fn.body:
                    if isinstance(st, ast.Assign) and len(st.targets) == 1 and isinstance(st.targets[0], ast.Name):
                        if isinstance(st.value, ast.Call) and 'SimpleNamespace' in ast.unparse(st.value.func):
                            for k in st.value.keywords:
                                if k.arg == rest[0] and len(rest) == 1:
                                    return self._ev(r.node.module, k.value, self._localenv(r.node.module, local, depth), depth + 1)
                        else:
                            local[st.targets[0].id] = st.value
        if isinstance(valnode, (ast.Name, ast.Attribute)):
            parts = dotted_parts(valnode)
            if parts:
                return self._name(mod, parts + list(rest), depth + 1)
        raise NotLiteral('attribute of non-namespace')

    def _localenv(self, mod, local, depth):
        env = {}
        for k, v in local.items():
            try:
                env[k] = self._ev(mod, v, env, depth + 1)
            except NotLiteral:
                pass
        return env


def same(a, b, tol=1e-12):
    a, b = np.asarray(a), np.asarray(b)
    return a.shape == b.shape and np.abs(a - b).max() < tol


S2 = 1 / np.sqrt(2)
CANON = {
    'I': np.eye(2), 'X': np.array([[0, 1], [1, 0]]), 'Y': np.array([[0, -1j], [1j, 0]]), 'Z': np.array([[1, 0], [0, -1]]),
    'H': np.array([[1, 1], [1, -1]]) * S2, 'S': np.array([[1, 0], [0, 1j]]), 'T': np.array([[1, 0], [0, np.exp(1j * np.pi / 4)]]),
    'CNOT': np.array([[1, 0, 0, 0], [0, 1, 0, 0], [0, 0, 0, 1], [0, 0, 1, 0]]),
    'CZ': np.diag([1, 1, 1, -1]), 'Swap': np.array([[1, 0, 0, 0], [0, 0, 1, 0], [0, 1, 0, 0], [0, 0, 0, 1]]),
}


def canon_name(v):
    for k, m in CANON.items():
        if same(v, m):
            return k
    return None
