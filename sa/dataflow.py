"""Small def-use helpers over function bodies (flow-insensitive unless stated)."""
import ast
from .callgraph import resolve_callee, local_names


def own_nodes(func_node):
    """Walk a function body without descending into nested function/class scopes."""
    stack = list(func_node.body) if not isinstance(func_node, ast.Lambda) else [func_node.body]
    while stack:
        n = stack.pop()
        yield n
        for c in ast.iter_child_nodes(n):
            if isinstance(c, (ast.FunctionDef, ast.AsyncFunctionDef, ast.ClassDef, ast.Lambda)):
                continue
            stack.append(c)


def all_nodes(func_node):
    for s in (func_node.body if not isinstance(func_node, ast.Lambda) else [func_node.body]):
        yield from ast.walk(s)


def assignments(func_node):
    """name -> list of (value_expr, stmt, path) for every binding of `name` in the function's own scope.

    path is None for a direct binding ``name = value``; a tuple of indices for unpacking
    ``a, (b, c) = value`` (b has path (1, 0)); 'aug' for augmented assignment; 'for' for loop targets
    (value = iterable); 'with' for with-items.
    """
    cached = getattr(func_node, '_assignments', None)
    if cached is not None:
        return cached
    out = {}

    def bind(target, value, stmt, path):
        if isinstance(target, ast.Name):
            out.setdefault(target.id, []).append((value, stmt, path))
        elif isinstance(target, (ast.Tuple, ast.List)):
            for i, e in enumerate(target.elts):
                if isinstance(e, ast.Starred):
                    bind(e.value, value, stmt, 'star')
                else:
                    p = (path or ()) + (i,) if path is None or isinstance(path, tuple) else path
                    bind(e, value, stmt, p)

    for n in own_nodes(func_node):
        if isinstance(n, ast.Assign):
            for t in n.targets:
                bind(t, n.value, n, None)
        elif isinstance(n, ast.AnnAssign) and n.value is not None:
            bind(n.target, n.value, n, None)
        elif isinstance(n, ast.AugAssign):
            bind(n.target, n.value, n, 'aug')
        elif isinstance(n, (ast.For, ast.AsyncFor)):
            bind(n.target, n.iter, n, 'for')
        elif isinstance(n, ast.With):
            for it in n.items:
                if it.optional_vars is not None:
                    bind(it.optional_vars, it.context_expr, n, 'with')
        elif isinstance(n, ast.NamedExpr):
            bind(n.target, n.value, n, None)
        # comprehension targets are scoped to the comprehension (see comp_binding)
    func_node._assignments = out
    return out


def return_exprs(func_node):
    return [n.value for n in own_nodes(func_node) if isinstance(n, ast.Return) and n.value is not None]


def is_param(func_node, name):
    return local_names(func_node).get(name) == 'param'


def origins(proj, mod, func_node, expr, depth=0, _seen=None):
    """Chase `expr` back to defining expressions.

    Returns a list of (origin_expr, module, func_node) where origin_expr is an expression that is not a
    plain local Name with known bindings (parameters are returned as the Name itself). Follows tuple
    unpacking of literal tuples and of calls to resolved package functions (into their return tuples).
    """
    _seen = _seen if _seen is not None else set()
    key = (id(func_node), ast.dump(expr) if isinstance(expr, ast.AST) else str(expr))
    if key in _seen or depth > 8:
        return [(expr, mod, func_node)]
    _seen.add(key)
    if isinstance(expr, ast.Name) and func_node is not None:
        asg = assignments(func_node).get(expr.id)
        if not asg or is_param(func_node, expr.id) and not asg:
            return [(expr, mod, func_node)]
        out = []
        if is_param(func_node, expr.id):
            out.append((expr, mod, func_node))
        for value, stmt, path in asg:
            if path is None:
                out.extend(origins(proj, mod, func_node, value, depth + 1, _seen))
            elif isinstance(path, tuple):
                out.extend(_unpack_origin(proj, mod, func_node, value, path, depth, _seen))
            else:
                out.append((ast.Tuple(elts=[], ctx=ast.Load()) if False else _Opaque(path, value), mod, func_node))
        return out
    return [(expr, mod, func_node)]


class _Opaque(ast.AST):
    """Marker origin: bound by for/with/aug/star (kind) from `value`."""
    _fields = ()

    def __init__(self, kind, value):
        self.kind = kind
        self.value = value
        self.lineno = getattr(value, 'lineno', None)


def _unpack_origin(proj, mod, func_node, value, path, depth, seen):
    # literal tuple on the right-hand side
    v = value
    ok = True
    for i in path:
        if isinstance(v, (ast.Tuple, ast.List)) and i < len(v.elts):
            v = v.elts[i]
        else:
            ok = False
            break
    if ok:
        return origins(proj, mod, func_node, v, depth + 1, seen)
    if isinstance(value, ast.Name):
        outs = []
        for (o, m2, f2) in origins(proj, mod, func_node, value, depth + 1, seen):
            if o is value:
                outs.append((_Opaque('unpack', value), mod, func_node))
            else:
                outs.extend(_unpack_origin(proj, m2, f2, o, path, depth + 1, seen))
        return outs
    if isinstance(value, ast.Call):
        r = resolve_callee(proj, mod, value)
        fn = None
        m2 = mod
        if r.kind == 'func':
            fn, m2 = r.node.node, r.node.module
        elif r.kind == 'localfunc':
            fn = r.node
        if fn is not None:
            outs = []
            for rexpr in return_exprs(fn):
                outs.extend(_unpack_origin(proj, m2, fn, rexpr, path, depth + 1, seen))
            if outs:
                return outs
    return [(_Opaque('unpack', value), mod, func_node)]


# ----------------------------------------------------------------- reaching definitions (structured)
def _stmt_of(node):
    """Innermost statement containing node, and the (parent, field-list) it sits in."""
    n = node
    while n is not None and not isinstance(n, ast.stmt):
        n = getattr(n, '_parent', None)
    return n


def _block_of(stmt):
    p = getattr(stmt, '_parent', None)
    if p is None:
        return None, None
    for field in ('body', 'orelse', 'finalbody'):
        b = getattr(p, field, None)
        if isinstance(b, list) and any(s is stmt for s in b):
            return p, b
    if isinstance(p, ast.Try):
        for h in p.handlers:
            if any(s is stmt for s in h.body):
                return p, h.body
    if isinstance(p, ast.ExceptHandler):
        return p, p.body
    return p, None


def _binds(stmt, name):
    """Assigned values for `name` anywhere inside stmt (own scope): list of (value, stmt, path)."""
    out = []
    fake = ast.FunctionDef(name='_', args=ast.arguments(posonlyargs=[], args=[], kwonlyargs=[], kw_defaults=[], defaults=[]),
                           body=[stmt], decorator_list=[])
    for nm, lst in assignments(fake).items():
        if nm == name:
            out.extend(lst)
    return out


def reaching_defs(func_node, name, at_node):
    """May-reach definitions of `name` at `at_node` (structured backwards walk).

    Returns list of (value, stmt, path); a ('param', None, None) entry means the parameter/outer value may reach.
    """
    out = []
    stmt = _stmt_of(at_node)
    killed = False
    while stmt is not None and stmt is not func_node and not killed:
        parent, block = _block_of(stmt)
        if block is not None:
            idx = next(i for i, s in enumerate(block) if s is stmt)
            for s in reversed(block[:idx]):
                if isinstance(s, (ast.FunctionDef, ast.AsyncFunctionDef, ast.ClassDef)):
                    continue
                b = _binds(s, name)
                if not b:
                    continue
                simple = isinstance(s, (ast.Assign, ast.AnnAssign)) and not any(p == 'aug' for _, _, p in b)
                out.extend(b)
                if simple:
                    killed = True
                    break
                if isinstance(s, ast.AugAssign):
                    continue
                if isinstance(s, ast.If) and s.orelse and _always_binds(s.body, name) and _always_binds(s.orelse, name):
                    killed = True
                    break
        if killed:
            break
        if isinstance(parent, (ast.For, ast.While, ast.AsyncFor)):
            # loop-carried definitions
            for s in parent.body:
                out.extend(_binds(s, name))
            if isinstance(parent, (ast.For, ast.AsyncFor)):
                fake_b = _binds(ast.For(target=parent.target, iter=parent.iter, body=[], orelse=[]), name)
                if fake_b:
                    out.extend(fake_b)
        if isinstance(parent, (ast.FunctionDef, ast.AsyncFunctionDef, ast.Lambda)):
            if parent is not func_node:
                pass
            break
        stmt = parent if isinstance(parent, ast.stmt) else getattr(parent, '_parent', None)
        if isinstance(stmt, ast.ExceptHandler):
            stmt = getattr(stmt, '_parent', None)
    if not killed:
        out.append(('param', None, None))
    # de-duplicate
    seen, res = set(), []
    for v in out:
        k = id(v[1]) if v[1] is not None else 'param'
        kk = (k, str(v[2]))
        if kk not in seen:
            seen.add(kk)
            res.append(v)
    return res


def _always_binds(body, name):
    for s in body:
        if isinstance(s, (ast.Assign, ast.AnnAssign)) and _binds(s, name):
            return True
        if isinstance(s, ast.If) and s.orelse and _always_binds(s.body, name) and _always_binds(s.orelse, name):
            return True
    return False


def comp_binding(name_node):
    """If a Name is bound by an enclosing comprehension generator return that generator's iterable."""
    nm = name_node.id
    p = getattr(name_node, '_parent', None)
    while p is not None and not isinstance(p, (ast.FunctionDef, ast.AsyncFunctionDef, ast.Lambda, ast.stmt)):
        if isinstance(p, (ast.ListComp, ast.SetComp, ast.GeneratorExp, ast.DictComp)):
            for g in p.generators:
                for t in ast.walk(g.target):
                    if isinstance(t, ast.Name) and t.id == nm:
                        return g
        p = getattr(p, '_parent', None)
    return None


def walk_pruned(e, prune):
    """ast.walk that does not descend into nodes for which prune(node) is True (the node itself is skipped)."""
    stack = [e]
    while stack:
        n = stack.pop()
        if prune(n):
            continue
        yield n
        stack.extend(ast.iter_child_nodes(n))
