#!/venv/bin/python
"""Regenerate MANIFEST.json from the tables below (kept in one place so the manifest never drifts)."""
import json, os
HERE = os.path.dirname(os.path.abspath(__file__))
PY = '/venv/bin/python'

CLAIMS = {}   # filled below: id -> dict(text, note, technique, design_ref)
NA = {}


def claim(pid, text, note, technique, ref):
    CLAIMS[pid] = dict(text=text, note=note, technique=technique, ref=ref)


def na(pid, reason):
    NA[pid] = reason


def also(pid, text):
    """Further decided clauses, appended to the claim text (rules added after later seeded-change rounds)."""
    CLAIMS[pid]['text'] = CLAIMS[pid]['text'] + ' Also decided: ' + text


exec(open(os.path.join(HERE, 'manifest_claims.py')).read())

checks = []
for pid in sorted(CLAIMS):
    c = CLAIMS[pid]
    checks.append({
        'property_id': pid,
        'quick_cmd': f'{PY} /verif/check.py {pid} --tier quick',
        'thorough_cmd': f'{PY} /verif/check.py {pid} --tier thorough',
        'evidence_file': f'/verif/evidence/{pid}.json',
        'replay_cmd_template': f'{PY} /verif/check.py {pid} --replay {{path}}',
        'engine': 'sa',
        'level_claimed': {'category': 'other', 'text': c['text'], 'design_ref': c['ref']},
        'level_note': c['note'],
        'technique': c['technique'],
    })
man = {
    'version': 1,
    'setup_cmd': 'true',
    'hooks': {
        'guard': 'NUMQI_VERIF',
        'enable': 'none needed: every check parses /repo/python/numqi/**/*.py with ast on each run; nothing in /repo is '
                  'executed, built or instrumented, and there are no hook commits',
        'baseline_off_cmd': 'cd /repo && /venv/bin/python -m pytest -ra -q -p no:cacheprovider --timeout=900 '
                            '--continue-on-collection-errors',
        'source_commits': [],
        'add_only': True,
    },
    'engines': [{'name': 'sa', 'path': '/verif/sa',
                 'serves_properties': sorted(CLAIMS),
                 'kind_free_text': 'repository-specific static analysis over python ast: import/alias/factory-aware name '
                                   'resolution, call binding, structured forward dataflow (must-taint, typestate), '
                                   'reaching definitions, interval and provenance lattices, table/permutation algebra'}],
    'checks': checks,
    'notes': 'Static analysis only. Every check is `check.py <id>`; exit 0 pass, exit 1 + VIOLATION line for a definite '
             'violation, exit 2 + ANALYSIS-ERROR when the analysis cannot be completed (never reported as a violation). '
             'Genuine defects found on the original tree were repaired by fix: commits in /repo and are recorded in '
             '/verif/known_findings.json. See DESIGN.md.',
    'not_applicable': [{'property_id': k, 'reason': v} for k, v in sorted(NA.items())],
}
with open(os.path.join(HERE, 'MANIFEST.json'), 'w') as f:
    json.dump(man, f, indent=1)
print('claimed', sorted(CLAIMS), 'n/a', sorted(NA))
