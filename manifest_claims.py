# Claims and not-applicable reasons (read by tools_gen_manifest.py).  Keep in step with sa/props.py and DESIGN.md.

claim('C05',
      'Decides, for all inputs, the structural clauses of "criteria never flag a separable state": every accept/reject '
      'comparison of a floating-point linear-algebra result in the decision functions carries a tolerance and every PSD '
      'test is shifted (T1); no criterion raises by construction on its documented domain (K1); closed-form measures have '
      'no unguarded 0*log 0 (F1). The behaviour itself (that tolerances are large enough, that the SDP tests accept every '
      'separable state) is value-level and NOT decided.',
      'Trusted: CPython ast; the enumerated guard idioms of F1; the decision-function table in sa/props.py. A construct '
      'outside the enumerated idioms is reported as undecided/analysis error, never as a violation.',
      'ast dataflow: provenance lattice on comparisons (T1), dominance of length facts (K1), guard reaching-definitions + interval analysis (F1)',
      'DESIGN.md 4 (T, F, K), 5 C05')
claim('C10',
      'Decides the reproducibility clause for every seed-accepting API of the whole package (53 functions): on every '
      'resolved path the result is a function of arguments and seed only - no ambient draw (S3), every nested seeded '
      'callee receives a seed-derived value in its seed slot (S2), every generator draw has a seed-derived receiver on '
      'every path (S4, flow-sensitive must-taint). Validity of the returned objects is value-level and NOT decided.',
      'Unresolvable callees (model(), user callables) are not followed; NumPy/LAPACK determinism assumed.',
      'structured forward must-taint dataflow over resolved call bindings (ast)',
      'DESIGN.md 4 (S), 5 C10')
claim('C11',
      'Decides totality of the marginalisation primitive over every number of unmeasured qubit groups (N1: no '
      'norm(axis=<data-length tuple>)), and seed threading Circuit.measure -> MeasureGate -> measure_quantum_vector (S). '
      'Born marginals, renormalisation and repeatability are value-level and NOT decided.',
      'Trusted: NumPy API contract for linalg.norm(axis=); ast name resolution.',
      'ast def-use chase of axis arguments through tuple-returning callees; must-taint seed dataflow',
      'DESIGN.md 4 (K/N1, S), 5 C11')
claim('C18',
      'Decides two certain-defect clauses for the catalogue modules: no self-cancelling `a / b*b` normalisation (K2) and '
      'no unguarded x*log x in the closed-form Werner/isotropic expressions (F1). Normalisation/PSD/PPT of each constructor '
      'is value-level and NOT decided.',
      'Trusted: Python operator precedence; the enumerated guard idioms of F1.',
      'ast pattern + guard reaching-definitions with interval analysis',
      'DESIGN.md 4 (K, F), 5 C18')
claim('C20',
      'Decides that every certificate comparison of the rank / rank-one detectors carries a tolerance (T1). Exactness of '
      'the span/complement and soundness of the hierarchy are value-level and NOT decided.',
      'Trusted: the decision-function table; provenance of the compared value through resolved callees.',
      'ast provenance lattice on comparisons in decision functions',
      'DESIGN.md 4 (T), 5 C20')

for _pid in ['C01', 'C02', 'C03', 'C04', 'C06', 'C07', 'C08', 'C12', 'C13', 'C15', 'C16', 'C19']:
    na(_pid, 'static rules for this property are designed (DESIGN.md 5) but not yet implemented in this revision; not claimed until they are')
na('C09', 'bijectivity/counting of the Sp(2n,F2) indexing and the transvection lemma are properties of runtime bit vectors under data-dependent branching; no code-shape clause of substance')
na('C14', 'group axioms of computed Cayley tables, partition and tableau counts are value-level combinatorics; only a 4x4 literal is visible statically')
na('C17', 'partial-trace index lists are computed at run time and the Dicke reduction is occupation-number arithmetic; no structural clause that is a necessary condition of the property')
