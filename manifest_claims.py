# Claims and not-applicable reasons (read by tools_gen_manifest.py).  Keep in step with sa/props.py and DESIGN.md.

claim('C05',
      'Decides, for all inputs, the structural clauses of "criteria never flag a separable state": every accept/reject '
      'comparison of a floating-point linear-algebra result in the decision functions carries a tolerance and every PSD '
      'test is shifted (T1); no criterion raises by construction on its documented domain (K1); closed-form measures have '
      'no unguarded 0*log 0 (F1); tolerance signs keep each decision on the sound side at the defaults (T2); no threshold is tighter '
      'than the precision class of the compared value (sqrt of a spectrum is in the 1e-8 class, T3); the feasibility verdict of the '
      'symmetric-extension SDP is "not infeasible", never "status == optimal" (SV1); a clamp that protects a square root sits inside it and '
      'sqrt(c*(1-P)) of a purity is clamped (F5, F2); multipartite reshapes list the subsystems in ascending order on both sides (AR2, 15 '
      'sites); a module-level memo is keyed on every input of the stored value (MC1: no history-dependent verdict); a reduced state taken by a single-operand einsum lists row legs before column legs (EO1); all '
      'call sites of a function pass the same two names in one order (CS1). That eps-class tolerances are large enough and '
      'the solver behaviour are value-level and NOT decided.',
      'Trusted: CPython ast; the enumerated guard idioms of F1; the decision-function table in sa/props.py. A construct '
      'outside the enumerated idioms is reported as undecided/analysis error, never as a violation.',
      'ast dataflow: provenance lattice on comparisons (T1), dominance of length facts (K1), guard reaching-definitions + interval analysis (F1)',
      'DESIGN.md 4 (T, F, K), 5 C05')
claim('C10',
      'Decides the reproducibility clause for every seed-accepting API of the whole package (53 functions): on every '
      'resolved path the result is a function of arguments and seed only - no ambient draw (S3), every nested seeded '
      'callee receives a seed-derived value in its seed slot (S2), every generator draw has a seed-derived receiver on '
      'every path (S4, flow-sensitive must-taint); the generator is built once per call, never inside a loop or comprehension (S7). Of the validity clause one structural part is decided: a complex-capable array composed '
      'with its own transpose in the random generators is conjugated (HM1: Hermitian outputs); rand_pauli never writes into the F2 of an '
      'operator it has already built (O4: its lazily computed sign would go stale). The other validity clauses are value-level '
      'and NOT decided.',
      'Unresolvable callees (model(), user callables) are not followed; NumPy/LAPACK determinism assumed.',
      'structured forward must-taint dataflow over resolved call bindings (ast)',
      'DESIGN.md 4 (S), 5 C10')
claim('C11',
      'Decides totality of the marginalisation primitive over every number of unmeasured qubit groups (N1: no '
      'norm(axis=<data-length tuple>)); seed threading Circuit.measure -> MeasureGate -> measure_quantum_vector (S); MeasureGate.forward '
      'takes bitstr / probability / collapsed state from one call with its own index and generator (D4); index shifting updates the '
      'gate object too (D3); the returned bit string is the big-endian expansion matching the C-order flattening (M1); a computed axis '
      'permutation is not undone by re-applying it (M2); the Born-rule / collapse structure: probabilities are the squared modulus summed '
      'over the unmeasured groups, the measured qubits are the kept groups, the outcome is drawn with p=prob, the collapsed state copies the '
      'selected slice onto a zero buffer and divides by sqrt(prob[outcome]) of the same outcome, and the outcome index is decoded over the '
      'sizes of the kept groups at their positions (M3); the collapse never writes into the caller\'s state (PU1); the torch execution path '
      'runs a measure gate through MeasureGate.forward like the NumPy path (D1). '
      'Numerical normalisation and repeatability over histories are value-level and NOT decided.',
      'Trusted: NumPy API contract for linalg.norm(axis=); ast name resolution.',
      'ast def-use chase of axis arguments through tuple-returning callees; must-taint seed dataflow',
      'DESIGN.md 4 (K/N1, S, M1-M3), 5 C11')
claim('C18',
      'Decides certain-defect clauses for the catalogue modules: no self-cancelling `a / b*b` normalisation (K2); no unguarded x*log x '
      'in the closed-form Werner/isotropic expressions (F1) and their masked updates stay in one index space (MS1); a `return_dm` '
      'option returns the outer product of the very ket returned without it (RD1); the UPB complement projector conjugates the bra factor '
      '(PJ1); result buffers typed after an unconverted parameter never receive a true-division value (DT1: integer coefficients); arrays '
      'derived from a list are built after its last append (ST1: basis list and projector array agree); no public constructor is memoised '
      'unfrozen (O3); the multi-qubit tetrahedron POVM tensors rows and columns in the same factor order (KR1). Normalisation/PSD/PPT of '
      'each constructor '
      'is value-level and NOT decided.',
      'Trusted: Python operator precedence; the enumerated guard idioms of F1.',
      'ast pattern + guard reaching-definitions with interval analysis',
      'DESIGN.md 4 (K, F, PJ1, DT1, ST1, O3), 5 C18')
claim('C20',
      'Decides that every certificate comparison of the rank / rank-one detectors carries a tolerance (T1) on the conservative side (T2) that '
      'is not tighter than the precision class of the compared value (T3), and that the '
      'structure-class arms of get_matrix_orthogonal_basis and detect_commute_matrix keep / re-insert Gell-Mann fields '
      'consistently: fields kept after analysis == data fields at synthesis, zeros re-inserted in the dropped block, projections '
      'keep every data field (G2, G3); basis and complement receive identical post-processing in every arm (G5); size names bound from '
      'shape[k] keep their axis identity and merged axes are split in merge order (SH3: the bipartite projector of the rank-one detector is '
      'reshaped for the right factorisation); a slice x[-(a-b):] has a guard for a == b (NZ1: the complement of a full-span input is empty, '
      'not everything); every eigsh call of the numerical-range routines names the algebraic end (K5). Exactness of the span/complement and soundness of the hierarchy are value-level and NOT decided.',
      'Trusted: the decision-function table; provenance of the compared value through resolved callees.',
      'ast provenance lattice on comparisons in decision functions',
      'DESIGN.md 4 (T, G, SH3), 5 C20')

claim('C01',
      'Decides the wrapper/functional agreement clauses for all 9 manifold modules (19 dispatch arms): forward() returns exactly the '
      'to_* functional applied to self.theta with every hyper-parameter bound, by resolved parameter name, to the attribute that '
      '__init__ built from the constructor argument of the same role (W1); every option the constructor accepts is dispatched to '
      'the map of that name (W2); the theta length allocated for each (option, real/complex, flag) is the same exact polynomial in '
      'dim, rank as the length the functional accepts for that field (W3); no dtype test is constantly false (K3); the ball map '
      'theta*h(r) has norm r*h(r) < 1 for EVERY theta, decided exactly on the polynomial den - r*num (RB1); in the 7 batched maps no operation combines arrays whose batch axis sits '
      'at different broadcast positions (SH1 shape inference) and every Euler-recursion reshape has the '
      'asked number of columns for every admissible block width incl. rank==dim (SH2); an orthonormalisation M @ F factorises exactly M^dagger M '
      'with no regularisation term or spectrum floor (W5); a batched literal einsum is its unbatched sibling plus the batch leg (W6); every '
      'eigsh call names the algebraic end it wants (K5); no resolved call crosses two bare-name arguments against the parameter names (AR3: '
      'density_matrix(dim, rank, batch_size) style wrappers); the hand-written softplus evaluates exp at a non-positive argument (F4); NumPy and PyTorch arms '
      'of 18 functional maps are the same computation (B1). Membership for the other manifolds (unit norm, PSD, X^dagger X = I, '
      'simplex, interval) for all theta is value-level and NOT decided.',
      'Trusted: role table {cayley_order->order, euler_with_phase->with_phase}; exact polynomial arithmetic over Q with //2 rewritten '
      'only for always-even numerators.',
      'ast call binding by parameter name + symbolic evaluation of constructor/functional length formulas to exact polynomials',
      'DESIGN.md 4 (W, K, RB1, SH1), 5 C01')
claim('C02',
      'Decides three necessary conditions of "locally onto": the allocated parameter count is >= the manifold dimension for every '
      '2<=dim<=12, 1<=rank<=dim and equal to it for the charts the property lists as exact (W4); theta is written into a Gell-Mann '
      'field that the following .imag/.real projection keeps - a parameter placed only in discarded fields makes the map constant '
      '(G2, symbolic field typing of concat segments; segments that are not aligned with a field are decided by containment for d = 2..8); '
      'on every condition-consistent branch path the column slices theta[:, a:b] partition the parameter vector - no block is read twice, '
      'none is skipped (W7); theta reaches the functional at all (W1). Full rank of the Jacobian is '
      'value-level and NOT decided.',
      'W4 is a bounded grid check of exact polynomials, not a proof for all dim; the manifold-dimension table is taken from the '
      'property statement.',
      'symbolic width typing of Gell-Mann coefficient vectors against the record layout [S|A|D|I]; exact polynomial parameter counts',
      'DESIGN.md 4 (W, W7, G), 5 C02')
claim('C08',
      'Decides the table clauses of "conversions are mutually inverse": all literal letter / base-4 digit / (x,z) bit / phase-code '
      'tables of numqi.gate._pauli compose to identities, single and batched paths use the same tables, full_matrix / '
      'from_full_matrix / from_np_list name the same operator for the same bits, the letter->matrix table holds the canonical Pauli '
      'of each letter (E1, 22 obligations); the XZ=-iY phase folding coefficients of encoders and decoder cancel mod 4 and the sign '
      'bits are split / recombined consistently and reduced mod 4 (E2); the group law of PauliOperator: the product overlap is z(left).x(right) '
      'in the decoder\'s X^x Z^z convention and the literal carry arithmetic equals c1+c2+2*overlap mod 4 on all 32 bit combinations, '
      'inverse() equals -c + 2 x.z on all 8, commutate_with is the symplectic form (E4: the checker\'s own integer evaluator on the literal '
      'formulas); rand_pauli fixes hermiticity through the low phase bit in both arms (E3); memoised fields (sign, string, matrices) are '
      'never copied from another operator and F2 is never written from outside the class (H6, O4); conversions that keep the data on the '
      'last axis slice with an Ellipsis (SH4). unpackbits byte order and the '
      'multi-qubit batch paths are value-level and NOT decided.',
      'Trusted: symplectic convention X=(1,0), Z=(0,1), Y=(1,1); closed constant folding of the literal tables (sa/tables.py).',
      'ast extraction + constant folding of literal encoding tables; commuting-diagram check on the 4-letter / 4-phase domain',
      'DESIGN.md 4 (E1-E4), 5 C08')
claim('C12',
      'Decides the index-convention clause for symbolic, unequal dim_in and dim_out: each of the 8 conversion / application routines '
      'of numqi.channel returns a tensor of its declared axis type (kraus (k,out,in); choi (in,out|in\',out\'); super (out,out\'|in,in\'); '
      'rho (in|in\')), interpreting reshape, literal transpose, .T, .conj(), @, kron and literal einsum lists on axis labels, with '
      'contractions required to pair identical roles (X1) - a compensated slip that round-trips is a type error here because every '
      'function is typed against the convention, not against its inverse; the three built-in noise channels are trace preserving '
      'for EVERY rate, symbolically (TP), and are not memoised (O3: every request returns a fresh array); a probe matrix handed to a user '
      'channel callable is allocated per call (AL2: identity-like callables may return their argument); spectral reconstructions V f(D) V^dagger '
      'conjugate the right factor (HM1, incl. .mT vs .mH); no flattening depends on the memory layout (RO1) and tensordot contractions are '
      'typed like einsum (X1); NumPy/PyTorch arms agree (B1); entropy formulas guard 0*log 0 (F1). Contractivity, '
      'fidelity and entropy inequalities are value-level and NOT decided.',
      'Trusted: the declared conventions, read from the module\'s own comments; size symbols din != dout.',
      'abstract interpretation of array plumbing over axis-role labels with symbolic sizes; exact polynomial arithmetic for Kraus weights',
      'DESIGN.md 4 (X, B, AL2, HM1, O3), 5 C12')
claim('C13',
      'Decides finiteness and the "every parameter point is a decomposition" structure: the closed forms have no unguarded 0*log 0 '
      '(F1) and clamp sqrt(1-C^2) for a concurrence that rounds above 1 (F2); in the EOF, concurrence and linear-entropy models the '
      'mixing matrix is a Stiefel(ensemble, rank) point built in __init__ (never swapped), sqrt(rho) takes the top-rank eigenpairs, '
      'forward contracts it once plain and once conjugated, and the literal index lists pair ket-rank with X, bra-rank with X*, keep '
      'the ensemble index and trace exactly one subsystem (V1); set_density_matrix re-computes every state-derived attribute on every path '
      '(V2: no early return, no one-armed conditional store - a re-used model never evaluates the previous state); the polar Stiefel map '
      'factorises exactly M^dagger M (W5: no regularisation term, so the mixing matrix is an isometry at every parameter scale); clamps sit '
      'inside square roots and the pure-state concurrence clamps its radicand (F5, F2); a purity is contracted with the conjugate / with '
      'transposed legs, never as a plain sum of squares (HM3). Ranges, LU invariance, monotone relations and loss >= closed form are '
      'value-level and NOT decided; for the GME model only (a),(b) of V1 are decided (computed index lists).',
      'Trusted: Stiefel point is an isometry (C01 territory).',
      'ast typing of literal contraction index lists + guard reaching-definitions with interval analysis',
      'DESIGN.md 4 (V1, V2, W5, F), 5 C13')
claim('C15',
      'Decides three clauses of the Euler-angle extraction: a batch is converted element-wise whatever mixture of generic and '
      'degenerate rotations it contains - abstract interpretation over the index-space lattice {Full, Masked(m), Scalar, Unknown} '
      '(MS1); a full-circle angle (alpha, gamma, alpha+-gamma) is never recovered from arccos of one entry alone - it needs arctan2 of '
      'two independent entries or a sign test on a second entry in the same branch (AG1, dataflow closure per branch); every '
      'arccos argument is clipped, so exactly degenerate and axis-aligned rotations do not produce NaN (F3); every public default of the '
      'gimbal threshold is above the resolution of arccos (AG5); mask-guarded update blocks '
      'are independent statements (MS2). Decided exactly, by polynomial arithmetic over Q(i) on the literal formulas (52 obligations): '
      'su2_to_so3 is the adjoint representation 1/2 Tr(s_i U s_j U^dag) - hence a homomorphism - and su2_to_angle hands the extractor the '
      'entries its parameters name (AG2); angle_to_so3 = Rz Ry Rz and every extractor branch reads (sin, cos) of exactly the angle '
      'combination it stores, so extract-then-rebuild is the identity up to branch thresholds (AG3); su2_to_so3(angle_to_su2) = '
      'angle_to_so3 (AG4). Branch thresholds, floating-point accuracy near the gimbal points, Wigner-d and Clebsch-Gordan relations '
      'for higher spin are value-level and NOT decided.',
      'Trusted: which parameters are full-length batch arrays and which names are matrix entries (signature of _so3_to_angle_hf0).',
      'exact polynomial identity checking of literal formulas over Q(i) (symbolic); abstract interpretation over a mask index-space lattice; branch-local def-use closure',
      'DESIGN.md 4 (AG1-AG4, MS1, MS2, F3), 5 C15')
claim('C16',
      'Decides the layout clauses: the basis stacking order, gellmann_matrix arms, analysis concat order and synthesis slices / '
      'off-diagonal placement of numqi.gellmann agree with each other and with the documented order in both backends (G1); every '
      'producer in the package that feeds a projected synthesis respects the layout (G2, 10 sites typed symbolically); the cached '
      'basis array handed out by all_gellmann_matrix is never mutated (O1); analysis and synthesis are C-linear (no conj/real/imag/abs on '
      'the data) and with_I only drops the last element after the tensor product (G4); every arm of gellmann_matrix is Hermitian with '
      'Tr(G^2) = 2 and the diagonal arms are traceless, for every d and index, symbolically (G6: conjugate pairs at mirrored positions, '
      'd*(2/d) = 2, s^2 (l + l^2) = 2); the tensor-product basis merges rows and columns in the factor order of the element index (KR1); '
      'the Gell-Mann norm is not computed as the root of a cancelling difference (F2); the analysis does not enumerate pairs in tril order (G1); a `:-k` slice with a zero-capable k and a float32 normaliser built from integer aranges are '
      'reported (NZ2, DT3). Orthogonality between different off-diagonal elements (disjoint supports), exact round trip and float32 behaviour '
      'are value-level and NOT decided.',
      'Trusted: projection semantics (.imag keeps the antisymmetric field only, .real keeps S, D, I) which follow from G1.',
      'ast table/slice extraction + symbolic (polynomial) column-range typing',
      'DESIGN.md 4 (G1-G6, O), 5 C16')
claim('C03',
      'Decides the vocabulary-and-dispatch clauses of the state-vector simulator: every named gate of Circuit binds the operator '
      'its name denotes with the right arity (D2, by literal folding of the numqi.gate constants against canonical matrices); '
      'Circuit.apply_state and the autograd forward loop dispatch every canonical kind to the same primitive with the same '
      'operand roles, in storage order (D1); to_unitary transposes its row-filled matrix (U1); the computed einsum leg lists of '
      'state.apply_gate, dm.apply_gate (both sides, conjugated operator on the right) and dm.operator_expectation follow the '
      'relabelling idiom with operator legs ordered (fresh/output, chosen/input) - op, not op^T, is applied (R1, symbolic typing of '
      'the list-building idioms; a conditional conjugate must inspect the operator itself; targets of a controlled gate are relabelled '
      'by their position among the non-control qubits); the target tuple recorded by every builder keeps the caller\'s order (D5); '
      'shift_qubit_index_ covers every kind (D3); no cached function hands out a shared Circuit (O2); the state / density-matrix primitives '
      'never store into (a view of) an argument (PU1, alias analysis over 100+ functions); no query method of Circuit is memoised in an '
      'attribute (H5: gates are shared mutable objects); inner_product_psi0_O_psi1 applies the factors of a term to the ket in reversed '
      'order (IP1); every return of the index-relabelling primitives depends on the target tuple (ER1: no order-blind shortcut), and '
      'an ordered target tuple is never handed to the order-normalising partial_trace (R1). '
      'The control-subspace slicing (reduce_shape_index arithmetic) and marginal probabilities are value-level and NOT decided.',
      'Trusted: canonical gate matrices in sa/gateval.py; the role patterns of D1. kraus gates have no dispatch arm by the '
      "source's own TODO and are excluded.",
      'ast registry extraction + literal constant folding of gate matrices; sibling dispatch-arm comparison',
      'DESIGN.md 4 (D), 5 C03')
claim('C04',
      'Decides the adjoint discipline of every hand-written backward pass: reverse sweep over the forward range (A1); op.T on the '
      'conjugated state and op.T.conj() on the cotangent with the forward indices, sibling agreement of the two *_grad helpers, '
      'Knill-Laflamme adjoint sweep over the reversed sequence and forward twins alpha-equivalent (A2); += accumulation for shared '
      'slots (A3); backward return arity / save-restore arity for all 5 autograd.Function classes (A4); once_differentiable where '
      'backward leaves torch (A5); backward dispatches to the *_grad twin of the forward primitive (D1); the operator-gradient contraction returns legs '
      '(chosen, fresh) = d/d op[row, col] (R1); the 0/0 mask of the sqrtm backward indexes with the batch column of its nonzero table (A6); the flat-parameter bridge clears .grad '
      'before the backward pass (A7); the custom-backward matrix logarithm is selected whenever the tensor whose log is taken requires grad '
      '(A8); ctx.needs_input_grad is indexed with the slot of the argument whose gradient it guards (A9); the fresh legs of the op_grad contraction are listed in the order of `index`, not in qubit-position order (R1); '
      'parametrised gate matrices agree across backends (B1). That the accumulated '
      'numbers equal the derivative (Sylvester backward, Pade logm) is value-level and NOT decided.',
      'Trusted: the adjoint rule templates; torch.autograd.Function API contract.',
      'ast sibling/twin comparison and operator-form classification (id / T / H) at resolved call sites',
      'DESIGN.md 4 (A, D), 5 C04')
claim('C06',
      'Decides three structural necessary conditions: the PPT routines apply a genuine partial transpose for symbolic dims - the '
      'literal permutation is a non-identity involution of ket<->bra swaps of one subsystem (P1); boundary intervals are derived '
      'and intersected monotonically - lower end from the largest, upper from the smallest shifted eigenvalue, lower ends combined '
      'with maximum, upper with minimum, callers take the ray-direction end (I1); the SDP/LP builders of the k-extension, PPT '
      'numerical range and CHA programmes keep complete constraint sets that only grow - PSD of every block, normalisation, the '
      'partial-transpose constraint under use_ppt, linking equalities, lambda>=0 and sum(lambda)=1 (C1: dropping one enlarges the '
      'feasible set and breaks beta_k-ext+PPT <= beta_PPT / beta_CHA <= beta_k-ext); a norm of an explicitly batched array names its vector '
      'axis (N2: a batch gets per-item Gell-Mann norms); subsystem roles keep their order through every resolved call - dim0,dim1 -> '
      'dimA,dimB (AR1, 14 call sites: the inner CHA model is built for the same factorisation the outer tests use); the CHA boundary history '
      'only takes values from an LP solve executed after the last re-ordering of the product states (C2); the cached symmetric-extension '
      'tables are not modified in place (O1); the batched boundary formula keeps the batch axis aligned (SH1). Threshold exactness, interpolation distance '
      'and the numerical beta inequalities are eigenvalue / solver quantities and NOT decided.',
      'Narrow structural claim. Trusted: ascending order of eigvalsh; cvxpy operator semantics (>> is PSD).',
      'ast permutation algebra on literal transposes; tag propagation (lower/upper) through max/min; constraint-kind inventory of list-building statements',
      'DESIGN.md 4 (P1, I1, C1, N2, AR1), 5 C06')
claim('C07',
      'Decides the history clause: every function that mutates the recorded gate list - including the 8 factory-made recorders - '
      'resets the memoised tableau on every path (H1, flow-sensitive typestate over discovered memo/source fields), so a query '
      'reflects all gates appended so far; recorder keys, tableau table, universal-circuit table and random-gate lists agree and '
      'each key maps to the operator it names, by literal matrix evaluation (H2); the lazy accumulation composes in an order that '
      'is U^dagger P U (H3 parity of traversal direction and multiply operand order; the gate tableau is always embedded through the index '
      'array, which is held in a wide integer dtype); no constructor has an escaping mutable default, so two circuits never share a history '
      '(MD1); the register size ranges over every index slot (H7); the F2 sign bit is converted to the tableau phase with the Y-pair '
      'correction (H8); cached tableaux are never mutated (O1); '
      'random gates draw from the seeded generator with correct bounds (S, S5). Phase bookkeeping (Z4 arithmetic on runtime '
      'arrays) is value-level and NOT decided.',
      'Trusted: mutating-method vocabulary of H1; clifford_multiply(x,y)=y o x as documented in its source comment.',
      'structured forward typestate dataflow (may-mutated / must-reset) + table agreement by literal gate-matrix folding',
      'DESIGN.md 4 (H, O, MD1), 5 C07')
claim('C19',
      'Decides, exhaustively for the 8 shipped codes, by abstract interpretation of the literal Clifford encoders in the stabilizer-'
      'tableau domain (Q4): every listed stabilizer string is in the stabilizer group of the encoder with sign +1 (fixes every code '
      'word), and every Pauli error of weight 1..d-1 (31713 for the 11-qubit code) is detected or degenerate, i.e. Knill-Laflamme '
      'holds below the distance. Also: the stabilizer-string parser appends the fixed Pauli of each letter in both arms (Q1), '
      'make_error_list enumerates each weight-w Pauli exactly once by construction (Q2), name/strings literals agree (Q3), the KL '
      'custom backward follows the adjoint discipline (A); the count loops of make_asymmetric_error_set reach every free qubit (Q5, polynomial '
      'identity of the bound); the weight enumerators are normalised by the code dimension read before zero-padding (Q6); containers modified '
      'inside a loop are created in that loop (AL1: no Pauli factor leaks from one generated error into the next); hf_split_element translates positions to labels (Q7); the '
      'operator words are enumerated by product, never by combinations (Q2); a named iterator is consumed once (IT1). The weighted-bound '
      'arithmetic and the enumerator sums themselves are NOT decided.',
      'Assumes the simulator applies a recorded gate as the operator of its registry entry (D2 ties names to operators; the '
      'embedding itself is C03). Gate conjugation tables are derived from the literal gate matrices.',
      'abstract interpretation of literal straight-line gate programs over the Pauli tableau domain; finite exhaustive enumeration of errors below d',
      'DESIGN.md 4 (Q), 5 C19')

claim('C09',
      'Decides the writer/reader agreement clauses of the Sp(2n,F2) indexing, each a necessary condition of "the inverse map returns the '
      'original tuple" / "every image preserves the symplectic form": base, order and coset radices are built from the same generator 4^i and '
      'factor pair (SP1); the recursive step embeds by ONE index map for rows and columns and the decoder removes the same rows/columns in '
      'the same order (SP2); the (a_i, b_i) codec has inverse offsets, matching bit widths, identical h0 slices and the same polarity for the '
      'extra transvection (SP3); one bit/byte order in the bit-array helpers (SP4); the symplectic form crosses the halves, a transvection is '
      'x + <x,h>h, the closed-form inverse is roll(S^T, n) on both axes (SP5); the two symmetric blocks of find_transvection are twins up to '
      'v0 <-> v1 (SP6); radix draws of rand_SpF2 stay inside the radix (S5) and come from ONE generator per call (S7); the bit-array codec '
      'uses exact Python integers, never fixed-width NumPy place values (SP4); no memoised function hands out an unfrozen array (O5). The bijection itself (distinctness, image = whole group, the '
      'Lemma-2 case analysis mapping v0 to v1) is a property of run-time bit vectors and is NOT decided.',
      'Trusted: the idiom tables of SP2/SP3 (slice texts); a restructured encoder/decoder is reported as analysis error, never as a violation.',
      'ast sibling (encoder/decoder) agreement: slice-map extraction, alpha-renamed twin comparison, literal table checks',
      'DESIGN.md 4 (SP), 5 C09')
claim('C14',
      'A thin clause-level claim. Decides structural necessary conditions of the table constructors: the left regular form places the 1 '
      'of L(g) at [g*h, h] - the homomorphic orientation (GR1); the literal Klein-four table is a group table, checked exhaustively on the '
      'literal (Latin square, identity, involutions, 64 associativity triples) and the literal quaternion seed equals the quaternion products '
      '(GR2); the irrep reduction conjugates the transposed factor of its change of basis (HM2); cyclic and multiplicative tables use (i+j) mod n over '
      'arange(n) / (x*y) mod n over exactly the units with a lookup built from the same element list (GR3); symmetric, alternating and '
      'dihedral tables compose permutations as perm[:, perm] and look the composite up in a dictionary enumerating the composed list; the '
      'alternating filter keeps even cycle type (GR4); hook lengths are arm + leg + 1 on the cells of the mask with dimension exponents '
      '1 - count(k) (GR5); the partition count follows p(n,m) = sum_r p(n - r m, m-1) with unit boundary (GR6); cached tables are not mutated by '
      'package code (O1). That a COMPUTED table satisfies the group axioms, faithfulness / unitarity / sum d^2 = |G| of the reduced irreps, '
      'exactness of the Young-diagram list and the tableau enumeration versus the hook-length count are value-level and NOT decided.',
      'Trusted: the idiom tables of GR3-GR6 (a restructured constructor is reported as analysis error, never as a violation).',
      'ast idiom checks + exhaustive finite evaluation of a literal table by the checker',
      'DESIGN.md 4 (GR), 5 C14')
claim('C17',
      'Decides the relabelling clauses: numqi.utils.partial_trace contracts with legs rows=range(N0), cols=range(N0,2N0) where exactly the '
      'complement of the sorted, de-duplicated keep set shares one leg between row and column, and returns kept rows then kept columns in '
      'the same order (PT1, symbolic typing of the run-time leg lists - the einsum then IS the explicit contraction); the Dicke '
      'reduction table pairs k with k - e_r + e_s and reads the decremented slot on the source and the incremented slot on the target '
      'tuple (PT2); partial_trace_ABk_to_AB conjugates the bra factor only, uses (I,J,value) in table order and reorders (A,A\',r,s) to '
      '(A,r,A\',s) in both backends, whose arms are the same computation (PT3, B1); the unfolding never depends on the memory layout (RO1); the Dicke index arithmetic uses no '
      'narrow integer dtype (DT2); no constructor of numqi.dicke is memoised unfrozen (O3). Orthonormality and permutation invariance of the Dicke '
      'vectors and the occupation-number identity itself are value-level and NOT decided.',
      'Trusted: NumPy einsum semantics for integer leg lists; the idiom table of PT1 (a different way of building the legs is reported as '
      'analysis error, never as a violation).',
      'ast idiom typing of run-time einsum leg lists + sibling backend-arm comparison',
      'DESIGN.md 4 (PT), 5 C17')


# ---- clauses added with the second half of the round-3 rules (DESIGN.md 4, "Round-3 batch, second half")
also('C02', 'no forward trivialization map (to_*, forward) applies a saturating function (clip / clamp / maximum / minimum / relu / floor / round / sign) to a value '
            'derived from its parameter - such a map is constant in that coordinate on an open set, a zero Jacobian column at generic points (W8, 29 maps).')
also('C06', 'a broadcast outer product v v^dagger conjugates the factor whose vector index is the last axis (HM4: the CHA projector is not transposed); no function that '
            'answers by solving a convex program returns a value before the first solve (SDP1, 15 functions: constraint options cannot be bypassed); '
            'get_ppt_boundary keeps within_dm=True by default (DF1: beta_PPT <= beta_DM for a plain call).')
also('C08', 'the scalar index -> F2 conversion keeps the phase bits of its Pauli string and drops them only when with_sign is false (E5); a shape snapshot used to restore a '
            'batch layout is taken before the array is flattened (ST2); no flag parameter is tested with `is True` / `is False` (ID1: numpy booleans honoured).')
also('C09', 'under an open-rank guard a new axis is appended with an Ellipsis (EL1: transvection on batches of any rank); float-default array constructors in the GF(2) modules '
            'name an integer dtype (DT5: the closed-form inverse stays a uint8 group element); a tuple of digits is never (N % b for b in bases) without the running '
            'quotient (MR1).')
also('C10', 'a (count, dim) sample is normalised per vector, with the axis named (N2); an unseeded generator is constructed only in the arm selected by `seed is None`, never '
            'in a fall-through else (S8: numpy integer seeds stay seeds).')
also('C11', 'every exit of measure_quantum_vector returns the collapsed zero-initialised buffer, none the input state (M3f); Circuit builder methods never assign attributes of a '
            'gate object they were given (PU2).')
also('C13', 'no closed form calls scipy.linalg.sqrtm (F6); scipy.special.entr is never applied to a raw eigvalsh / eigh / svd output (F7); each of the four convex-roof setters '
            'asserts that the kept eigenvalues sum to one AFTER the rank truncation (V3: the loss is a decomposition of the given state, not of a truncation).')
also('C14', 'no function keeps a hand-rolled memo in a module-level container that is not keyed by its arguments (MC2); no array is indexed with a list taken from a set (SO1); '
            'no option is normalised and then never used (UP1: `alternating`).')
also('C15', 'a buffer that receives angles never takes its dtype from an input (DT6: integer-typed rotation matrices); `param or default` is not used on numeric parameters '
            '(FZ1: spin 0); a tolerance parameter that is never read is forwarded to the callee that takes the same parameter (FW1).')
also('C17', 'no call passes two bare names to a callee whose parameters carry those names in crossed positions (AR3 on dicke + utils); the asserts of the Dicke table '
            'constructors admit every (copies >= 1, dimension >= 2) the property quantifies over (DOM1).')
also('C18', 'no public constructor hands out the array of an unfrozen memoised helper (O3B); where a function clamps an input parameter, a square-root radicand computed from it '
            'is clamped itself (F8: closed forms vanish, not NaN, at the end point); each block of the six-parameter UPB reads only its own party\'s parameters (RP1); an if/elif dispatch on an asserted enumeration covers every admitted literal (EX1).')
also('C20', 'an eigenvector taken from eigh / eigsh is a column `[:, k]`, never a row (EV1: numerical-range points attain the support function); a default-float buffer '
            'never receives whole items of a sequence derived from the (possibly complex) input (DT4); an if/elif dispatch on an asserted enumeration (method, kind, key) '
            'covers every admitted literal (EX1, 3 chains).')

# ---- clauses added with the round-4 rules (DESIGN.md 4, "Round-4 batch")
also('C01', 'arrays with an open batch shape are reduced along negative axes (AX1); a hand-written softmax shifts by the per-sample maximum (SM1); no literal sin(r)/r (SINC1).')
also('C02', 'no forward map divides a parameter-derived value by its own modulus (W8: no gauge fixing that removes a phase coordinate); a generator that is complex on some path is '
            'never symmetrised with its bare transpose (HM1: the Hermitian part of an SU(d) generator is kept); a complex-capable array is never cast to a real dtype (DT7).')
also('C03', 'the sweep over the gate list dispatches every gate - no continue / break (D6, 7 sweeps); the apply_* primitives never re-normalise by a data-dependent trace / norm '
            '(NR1); no angle is reduced modulo a multiple of pi in numqi.sim / numqi.gate (PG1).')
also('C04', 'forward / backward of every autograd Function store only into ctx and local objects (A10, 10 methods); no *_grad primitive branches on the numeric content of the '
            'operator (A11); a memo key compared with an argument is stored as a copy (AL3, closures included).')
also('C05', 'the strongest precondition met along the call chain of the symmetric-extension entry points still admits kext = 1 (DOM1); a matricisation inside a loop over '
            'bipartitions takes its row size from the same bipartition (RS1).')
also('C06', 'the symmetric-extension entry points admit kext = 1 along their call chain (DOM1); the Gell-Mann norm is not a difference of two separately computed squared norms '
            '(F9); a block-wise stacked batch is unfolded block-major (CC1); hf_interpolate_dm does not clamp its parameter (I2).')
also('C16', 'no square root of a difference of two separately computed squared norms in numqi.gellmann (F9).')
also('C07', 'every formulation of the ordering-phase term of clifford_multiply puts the Z-half of Sy on the first index of the strict upper triangle (H9); no flattened state '
            'stands on the left of `@` with an operator on the right (VM1).')
also('C08', 'integer bit weights are never cast to a floating dtype (PR1); the qubit count of a batch of strings is never the dtype storage width (E6).')
also('C09', 'no floating-point linear algebra in the GF(2) modules (DT5); a NumPy bounded sampler never takes a bound derived from an arbitrary-precision group order (S5).')
also('C10', 'a NumPy bounded sampler never takes a bound derived from an arbitrary-precision integer (S5: valid for every n, not only n <= 31).')

# ---- clauses added with the second half of the round-4 rules
also('C11', 'a parameter that may be the bare integer 0 is never tested by truthiness (TR1); every arm of the kind dispatch of Circuit.apply_state applies its gate '
            'unconditionally and the measurement record is written by MeasureGate only (D7).')
also('C12', 'a buffer typed after an input never receives an imaginary-literal value outside a dtype-guarded branch (DT9); the probe loops of hf_channel_to_choi_op / '
            '_kraus_op cover all matrix units (CH1); the apply_* functions never conjugate a rho-derived value (LN1); no entr of a raw spectrum / sqrtm in numqi.utils (F7, F6).')
also('C13', 'no closed-form measure is snapped to zero inside a tolerance window (ZS1); no convex-roof forward uses a smoothed root that lies below sqrt(x) (V4).')
also('C14', 'no complex-aware function of the group modules forces an input-derived array to a real dtype (DT8); exact combinatorics never goes through np.prod (OV1).')
also('C15', 'no function returns one array under two output names (AL4); the gimbal tolerance is compared with the angle beta only (AG6).')
also('C16', 'an in-place operation on a VIEW of the cached Gell-Mann basis is reported like one on the basis itself (O1); Ellipsis-addressed arrays are reduced along negative '
            'axes (AX2); a buffer typed after the input never receives the imaginary antisymmetric coefficients (DT9).')
also('C17', 'subsystem index 0 is never treated as "not given" (TR1); partial_trace and partial_trace_ABk_to_AB never re-normalise by a data-dependent trace (NR1); occupation '
            'tuples are never keyed with radix dim (MR2).')
also('C18', 'no entr of a raw spectrum in numqi.utils / the state catalogue (F7: the closed-form REE stays finite at alpha = 1).')
also('C19', 'no in-place method is called on a copy.copy of a circuit (AL5); Circuit.num_qubit is never asserted equal to a register size (NQ1); the ceiling-division idiom is '
            'not used with a divisor that may be fractional (CE1).')
also('C20', 'memo keys of index selections are never frozensets (FS1); a plain reshape of a tripartite tensor groups adjacent subsystems in ascending order (AR4); one function '
            'never cuts singular values and Gram eigenvalues at the same tolerance (T4).')

# ---- clauses added with the round-5 rules
also('C01', 'a buffer allocated as (a, b, ..) is never re-read as (b, a, ..) through reshape (RT1); no hidden-eps normalize helper in a trivialization map (HE1).')
also('C02', 'the Cayley chart is C^order for every order >= 1 (W10); a triu / tril split of a parameter matrix drops no diagonal (W11); no forward map rotates away the phase '
            'angle of a parameter-derived value (W8).')
also('C06', 'a state argument of the entanglement criteria is never Hermitised with its bare transpose (HM5).')
also('C03', 'a memo in a local dict inside a loop is keyed on every attribute of the loop variable its value reads (LM1: one placeholder shared by gates of different types); '
            'set-typed parameters become sequences only through sorted() (SO2); the image buffer of to_unitary is complex by construction (U1).')
also('C04', 'no backward method chooses its formula by array_equal / allclose / count_nonzero of an operator (A12); no divided difference with the pairwise difference of one '
            'array with itself as denominator outside where() (SD1: degenerate spectra).')
also('C05', 'no in-place floating-point update of a plain copy of an input (DT10: integer-typed states); partial transposes of the irrep blocks factorise with dimA first (P2); '
            'eigenvectors are taken as columns (EV1 over the entangle modules); a state argument is never combined with its bare transpose (HM5).')
also('C07', 'the Clifford export appends one state-vector gate per recorded gate and never fuses by multiplying into an earlier gate (H10).')
also('C08', 'an xor-fold parity covers the whole index word (PAR1); the single-item flag is read before the flattening (ST3); every module-level memo is keyed on all inputs '
            'of the stored value, control dependences included (MC1: with_sign).')
also('C09', 'no unbounded integer of the Sp(2n,F2) bookkeeping is converted to a fixed-width NumPy integer (BI2).')
also('C10', 'a total count is compared with x.size, never len(x) (LEN1); no use of the generator in a seed-accepting method is gated by object state left by earlier calls (S9).')

# ---- clauses added with the round-5 rules, second half
also('C11', 'measure_quantum_vector does not reject states by an absolute double-precision tolerance on the probabilities (M3g).')
also('C12', 'a quadratic form vdot(v, M @ v) keeps the vector on the right of the product (QF1); the Hilbert-Schmidt product of two flattened matrices and every self-contraction '
            'of a complex-capable array carry a conjugate (HM6).')
also('C13', 'no convex-roof forward divides by the ensemble weights without a floor (V5).')
also('C14', 'a literal table of partition numbers equals the recurrence evaluated by the checker (GR8); the character inner product conjugates one factor (HM6).')
also('C15', 'get_su2_irrep never wraps an Euler angle modulo 2 pi (PG2); the 4 pi sheet test takes the real part of the complex product (AG7).')
also('C16', 'torch constructors in numqi.gellmann name their dtype (DT11); no sqrt-scaled store into a buffer typed after the coefficient vector (DT6C).')
also('C17', 'the input layout of partial_trace_ABk_to_AB is never guessed from a size coincidence (LG1).')
also('C18', 'the literal four-qubit UPB is pairwise orthogonal by its (basis, index) labels (UPB1, 15 pairs); the projector stack of the measurement bases conjugates the bra '
            'factor also when written as an einsum (HM6).')
also('C20', 'allclose / isclose with atol never keep the default rtol (AC1: the structure-class dispatch uses the stated absolute tolerance).')

# ---- clauses added with the round-6 rules
also('C02', 'no manifold module dispatches real / complex on equality with one complex dtype (DTYPE1); an option accepted by a wrapper class is forwarded to the class it '
            'constructs (FW1 over constructors: euler_with_phase).')
also('C03', 'Circuit.num_qubit reads both index slots of a control gate (H7B).')
also('C05', 'the unshifted PSD pre-check of is_ABk_symmetric_ext counts as a decision comparison (T1); a matricisation row size never depends on the bipartition only through '
            'its length (RS1); x*log(x) written with log1p is guarded like the log form (F1).')
also('C08', 'no identity-gated shortcut in PauliOperator.__matmul__ (E4B); no order=K flattening in the Pauli conversions (RO1); no persistent memo keyed by id() (ID2).')
also('C12', 'a difference of states is never symmetrised with its bare transpose (HM5 over numqi.utils); the Gell-Mann conversions have a single formulation - a literal-'
            'dimension fast path stops the check with exit 2 (SG1).')
also('C13', 'the partial transpose is never symmetrised with its bare transpose (HM5); a tolerance-gated second formulation of a closed-form measure stops the check with exit 2 (SG1).')
also('C14', 'the hook-branch bounds of the tableau recursion come from the transposed diagram (GR7).')
also('C18', 'list items are never all cast to the dtype of the first item (DT12); no public constructor returns a view of a module-level array (O6).')
also('C20', 'a value read from a memo dict is never updated in place (LM2).')

# ---- clauses added with the round-7 rules
also('C01', 'no floor division of a float parameter (FD2: interval midpoints).')
also('C03', 'a buffer typed after the state never receives products with the operator (DT13).')
also('C04', 'no detached tensor flows into a returned loss (DET1); no backward re-normalises by a data-dependent norm (A12); the custom-gate adjoint rules of numqi.query do not '
            'write into the arrays they are given (PU1 over methods).')
also('C05', 'the shared SDP input checker never replaces the state it checks (CHK1).')
also('C06', 'the shared SDP input checker never replaces the state it checks (CHK1: directions outside the state space are not projected).')
also('C07', 'the single-qubit kernel does not store operator products into a buffer typed after the state (DT13).')
also('C10', 'no projection (.real / .imag) of a vector after its normalisation (NRM1).')
also('C11', 'MeasureGate.forward passes only the state, its index and its generator to the measurement (D4B: no stale probabilities); the torch wrapper records for each circuit position that position\'s own gate object (GI1).')
also('C16', 'a conversion that flattens the batch after a shape snapshot restores the layout from that snapshot (ST4).')
also('C19', 'the tokenizer of the indexed Pauli form reads multi-digit qubit indices (Q8); split groups are unpacked in the order of their sizes (UN1).')

# ---- clauses added with the round-8 rules
also('C03', 'a fused run of gates multiplies the later gate from the left (ORD1); the simulator kernels keep a single formulation (SG1); qubit 0 is never read as "not given" (TR1).')
also('C05', 'every Cholesky positive-semidefiniteness test is shifted (PSD1: rank-deficient states are not rejected).')
also('C08', 'an angle is quantised to quarter turns with round, never int / floor (RND1).')
also('C17', 'the kept subsystems of partial_trace are normalised through sorted(..) (PT1 reports an order-preserving normalisation).')
also('C18', 'trial-division sweeps include the integer square root (TD1); a buffer allocated from a scalar parameter receives no quotient / root item store (DT14); the return_dm conversion is the last transformation of the result (RD2).')
also('C20', 'accumulating loops of the certificate routines append on every iteration (DROP1); the subset_by_index windows of the two ends of the spectrum have equal width (EVS1).')

# ---- clauses added with the round-9 rules
also('C01', 'a Cholesky-factor buffer typed after the parameter vector is guarded by a floating-dtype assert on its own path (DT1 through local dtype names).')
also('C04', 'no custom backward writes in place into an array that aliases a saved tensor or an incoming gradient (A13).')
also('C07', 'the exported circuit sizes its register from every index slot (H7B) and to_unitary types its image buffer complex (U1).')
also('C11', 'every store into the collapsed buffer reads the pre-measurement state (M4: the surviving amplitude keeps its phase).')
also('C14', 'an index packed as B*u + v takes its base from a size name, not a literal (MR3).')

for _p in sorted(CLAIMS):
    also(_p, 'no function outside the reviewed set of 24 memoised functions is decorated with lru_cache / cache (or keeps a module-level memo) while returning an unfrozen '
             'NumPy / torch object (MC3: no new shared mutable result in the modules of this property; package-wide in the thorough tier); no function of those modules writes in place into (a view of) an '
             'array it was given (PU1, incl. `x op= v` on an array parameter); every module-level memo is keyed on all inputs of the stored value (MC1); no certainly-real buffer receives a certainly-complex value (DTF1); no reshape regroups symbolically typed axes in another factor order and no product pairs two merged axes of different factor order (FL1 axis-order typing); no computed local is left unread while its neighbour stands twice in one later statement (UV1: substitution evidence only); an option is forwarded to a same-named option of a numqi helper on a delegating branch (FW2); eigh eigenvectors are transposed only with conjugation (EVH1); no real cast of an array inside a branch whose dtype test admits complex (CAST1); no operand combined with itself, no conditional with identical arms (SELF1); no `.T` on an array treated as a batch (BT1); np.outer(x, x) of a complex vector conjugates (OUT2); no real accumulator dtype over a complex-capable tensor (RK1); `.real` is never taken of an unconjugated self-product (CJ1).')
