#!/venv/bin/python
"""Run the whole self-test corpus for every property it targets; print the non-ok results."""
import os, sys
sys.path.insert(0, os.path.dirname(os.path.dirname(os.path.abspath(__file__))))
import multiprocessing as mp
from sa import selftest
base = '/dev/shm'
allv = dict(selftest.VARIANTS); allv.update(selftest.seeded_variants())
tasks = [(n, v, p, base) for n, v in sorted(allv.items()) for p in v['expect']]
with mp.Pool(12) as pool:
    res = pool.map(selftest._run_one, tasks)
bad = [r for r in res if r[2] != 'ok']
for r in bad:
    print(r)
print(len(res), 'runs;', len(bad), 'not ok')
