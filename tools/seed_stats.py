#!/venv/bin/python
"""Print per-round statistics of the stored seeded changes (from seeded/expect.json)."""
import json, os, re, collections
HERE = os.path.dirname(os.path.dirname(os.path.abspath(__file__)))
exp = json.load(open(os.path.join(HERE, 'seeded', 'expect.json')))
rounds = collections.OrderedDict()
for name, e in sorted(exp.items()):
    mm = re.match(r'^(C\d\d)-(r(\d)m|m)(\d)$', name)
    r = int(mm.group(3)) if mm.group(3) else 1
    d = rounds.setdefault(r, {'n': 0, 'caught': 0, 'exit2': [], 'missed': []})
    d['n'] += 1
    if e['caught_by']:
        d['caught'] += 1
    elif e['analysis_error_only']:
        d['exit2'].append(name)
    else:
        d['missed'].append(name)
tot = sum(d['n'] for d in rounds.values())
totc = sum(d['caught'] for d in rounds.values())
print(f'total {tot} stored, {totc} reported as VIOLATION')
for r, d in rounds.items():
    print(f'round {r}: {d["n"]} stored, {d["caught"]} caught, exit-2 only {d["exit2"]}, not reported {d["missed"]}')
rules = collections.Counter(rl for e in exp.values() for rl in set(e['caught_by'].values()))
print('distinct reporting rules:', len(rules))
