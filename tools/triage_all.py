#!/venv/bin/python
"""Run every claimed check against every seeded change found under the given roots (default: /verif/seeded/*, /tmp/wt_*/_seeded/m*).
Prints a table and writes /dev/shm/triage.json:  {seed: {prop: {'exit': n, 'rules': [...]}}} (only non-zero exits)."""
import glob, json, os, re, subprocess, sys, shutil
from concurrent.futures import ThreadPoolExecutor
HERE = os.path.dirname(os.path.dirname(os.path.abspath(__file__)))
sys.path.insert(0, HERE)
from tools.variant import make  # noqa

man = json.load(open(os.path.join(HERE, 'MANIFEST.json')))
PROPS = [c['property_id'] for c in man['checks']]


def one(item):
    name, patch = item
    try:
        root = make('tri_' + name, patch=patch)
    except Exception as e:
        return name, {'_error': f'patch does not apply: {e}'[:200]}
    out = {}
    try:
        for p in PROPS:
            r = subprocess.run(['/venv/bin/python', os.path.join(HERE, 'check.py'), p, '--root', root], capture_output=True, text=True)
            if r.returncode:
                rules = sorted(set(m_.group(1) for l in r.stdout.splitlines() if l.startswith('  python/') for m_ in [re.match(r'\s*python/\S+: \[([A-Z]+[0-9]*[A-Z]?)\]', l)] if m_))
                out[p] = {'exit': r.returncode, 'rules': rules}
    finally:
        shutil.rmtree(root, ignore_errors=True)
    return name, out


def main():
    items = []
    for d in sorted(glob.glob('/tmp/wt_*/_seeded/m*')):
        pid = d.split('/')[2][3:]
        items.append((f'{pid}-{os.path.basename(d)}', os.path.join(d, 'patch.diff')))
    for d in sorted(glob.glob('/tmp/w2_*/_seeded/m*')):
        pid = d.split('/')[2][3:]
        items.append((f'{pid}-r2{os.path.basename(d)}', os.path.join(d, 'patch.diff')))
    for d in sorted(glob.glob('/tmp/w3_*/_seeded/m*')):
        pid = d.split('/')[2][3:]
        items.append((f'{pid}-r3{os.path.basename(d)}', os.path.join(d, 'patch.diff')))
    for d in sorted(glob.glob('/tmp/w4_*/_seeded/m*')):
        pid = d.split('/')[2][3:]
        items.append((f'{pid}-r4{os.path.basename(d)}', os.path.join(d, 'patch.diff')))
    for d in sorted(glob.glob('/tmp/w7_*/_seeded/m*')):
        pid = d.split('/')[2][3:]
        items.append((f'{pid}-r7{os.path.basename(d)}', os.path.join(d, 'patch.diff')))
    for d in sorted(glob.glob('/tmp/w8_*/_seeded/m*')):
        pid = d.split('/')[2][3:]
        items.append((f'{pid}-r8{os.path.basename(d)}', os.path.join(d, 'patch.diff')))
    for d in sorted(glob.glob('/tmp/w9_*/_seeded/m*')):
        pid = d.split('/')[2][3:]
        items.append((f'{pid}-r9{os.path.basename(d)}', os.path.join(d, 'patch.diff')))
    for d in sorted(glob.glob('/tmp/w6_*/_seeded/m*')):
        pid = d.split('/')[2][3:]
        items.append((f'{pid}-r6{os.path.basename(d)}', os.path.join(d, 'patch.diff')))
    for d in sorted(glob.glob('/tmp/w5_*/_seeded/m*')):
        pid = d.split('/')[2][3:]
        items.append((f'{pid}-r5{os.path.basename(d)}', os.path.join(d, 'patch.diff')))
    seen = {n for n, _ in items}
    for d in sorted(glob.glob(os.path.join(HERE, 'seeded', 'C*-*m*'))):
        n = os.path.basename(d)
        if n not in seen:
            items.append((n, os.path.join(d, 'patch.diff')))
    if len(sys.argv) > 1:
        items = [it for it in items if any(a in it[0] for a in sys.argv[1:])]
    seen = {n for n, _ in items}
    for d in []:
        n = os.path.basename(d)
        if n not in seen:
            items.append((n, os.path.join(d, 'patch.diff')))
    with ThreadPoolExecutor(6) as ex:
        res = dict(ex.map(one, items))
    json.dump(res, open('/dev/shm/triage.json', 'w'), indent=1)
    for n in sorted(res):
        r = res[n]
        own = n.split('-')[0]
        if '_error' in r:
            print(f'{n:10s} {r["_error"]}')
            continue
        txt = ', '.join(f'{p}:{"/".join(v["rules"]) or "exit2"}' for p, v in sorted(r.items()))
        mark = 'CAUGHT' if any(v['exit'] == 1 for v in r.values()) else ('exit2' if r else 'missed')
        print(f'{n:10s} {mark:7s} {txt}')


if __name__ == '__main__':
    main()
