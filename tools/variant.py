#!/venv/bin/python
"""Scratch variants of /repo's package for testing the checker itself (never touches /repo).

  variant.py make <name> [--patch FILE] [--reverse] [--revert-commit SHA]   -> prints scratch root
  variant.py rm <name>
Scratch roots live under /dev/shm/numqi_variants/<name>/ (python/numqi only).
"""
import argparse, os, shutil, subprocess, sys
BASE = os.environ.get('VERIF_SCRATCH', '/dev/shm/numqi_variants')
REPO = os.environ.get('NUMQI_REPO', '/repo')


def make(name, patch=None, reverse=False, revert_commit=None):
    root = os.path.join(BASE, name)
    if os.path.exists(root):
        shutil.rmtree(root)
    os.makedirs(root)
    shutil.copytree(os.path.join(REPO, 'python'), os.path.join(root, 'python'),
                    ignore=shutil.ignore_patterns('__pycache__', '*.pyc', '*.egg-info'))
    if revert_commit:
        diff = subprocess.run(['git', '-C', REPO, 'show', '--format=', revert_commit, '--', 'python'],
                              check=True, capture_output=True, text=True).stdout
        p = os.path.join(root, '_revert.diff')
        open(p, 'w').write(diff)
        subprocess.run(['git', 'apply', '-R', '--include=python/*', p], cwd=root, check=True)
    if patch:
        cmd = ['git', 'apply', '--include=python/*'] + (['-R'] if reverse else []) + [os.path.abspath(patch)]
        subprocess.run(cmd, cwd=root, check=True)
    return root


if __name__ == '__main__':
    ap = argparse.ArgumentParser()
    ap.add_argument('cmd', choices=['make', 'rm'])
    ap.add_argument('name')
    ap.add_argument('--patch')
    ap.add_argument('--reverse', action='store_true')
    ap.add_argument('--revert-commit')
    a = ap.parse_args()
    if a.cmd == 'make':
        print(make(a.name, a.patch, a.reverse, a.revert_commit))
    else:
        shutil.rmtree(os.path.join(BASE, a.name), ignore_errors=True)
