#!/venv/bin/python
"""Confirm a seeded change produced by a sub-agent and file it under /verif/seeded/<id>-m<k>/.

  confirm_seed.py <Cxx> <k> [--src /tmp/wt_<Cxx>/_seeded/m<k>] [--no-suite]

Steps (all in a scratch worktree of /repo outside /repo and /verif, removed afterwards):
  1. demo.py on the clean tree must exit 0;   2. `git apply patch.diff` must succeed;
  3. demo.py with the change must exit non-zero;   4. the pinned test suite (xdist -n 7) must show no failure other than the
  three known-flaky / always-failing tests;   5. every claimed check is run against the changed tree and the outcome recorded.
"""
import argparse, json, os, shutil, subprocess, sys, time
import xml.etree.ElementTree as ET

HERE = os.path.dirname(os.path.dirname(os.path.abspath(__file__)))
FLAKY = {'test_Monogamy_of_entanglement', 'test_cvx_relative_entropy_entanglement_random', 'test_convex_hull_approximation_iterative'}


def sh(cmd, cwd=None, env=None, timeout=3600):
    return subprocess.run(cmd, cwd=cwd, env=env, shell=isinstance(cmd, str), capture_output=True, text=True, timeout=timeout)


def main():
    ap = argparse.ArgumentParser()
    ap.add_argument('prop')
    ap.add_argument('k')
    ap.add_argument('--src')
    ap.add_argument('--no-suite', action='store_true')
    ap.add_argument('--name')
    a = ap.parse_args()
    src = a.src or f'/tmp/wt_{a.prop}/_seeded/m{a.k}'
    wt = f'/tmp/cf_{a.prop}_{a.k}' + ('_' + a.name if a.name else '')
    out = os.path.join(HERE, 'seeded', a.name or f'{a.prop}-m{a.k}')
    sh(['git', '-C', '/repo', 'worktree', 'remove', '--force', wt])
    r = sh(['git', '-C', '/repo', 'worktree', 'add', '--detach', wt, 'HEAD'])
    if r.returncode:
        print(r.stderr)
        return 2
    res = {'property': a.prop, 'mutation': a.k, 'repo_head': sh(['git', '-C', '/repo', 'rev-parse', 'HEAD']).stdout.strip()}
    try:
        shutil.copy('/repo/python/numqi/_version.py', f'{wt}/python/numqi/_version.py')
        env = dict(os.environ, PYTHONPATH=f'{wt}/python', OMP_NUM_THREADS='1', MKL_NUM_THREADS='1', OPENBLAS_NUM_THREADS='1')
        demo = os.path.join(src, 'demo.py')
        r0 = sh(['/venv/bin/python', demo], cwd=wt, env=env, timeout=900)
        res['demo_clean_exit'] = r0.returncode
        ap_ = sh(['git', 'apply', os.path.join(src, 'patch.diff')], cwd=wt)
        res['patch_applies'] = ap_.returncode == 0
        if ap_.returncode:
            res['patch_error'] = ap_.stderr[-500:]
        r1 = sh(['/venv/bin/python', demo], cwd=wt, env=env, timeout=900)
        res['demo_changed_exit'] = r1.returncode
        res['demo_changed_tail'] = (r1.stdout + r1.stderr)[-600:]
        if not a.no_suite and res['patch_applies']:
            xml = wt + '.xml'
            t0 = time.time()
            sh(f'/venv/bin/python -m pytest -q -p no:cacheprovider --timeout=900 --continue-on-collection-errors -n 6 --junitxml={xml}',
               cwd=wt, env=env, timeout=7200)
            res['suite_wall_s'] = round(time.time() - t0)
            fails, npass = [], 0
            ids = {}
            for tc in ET.parse(xml).getroot().iter('testcase'):
                bad = any(c.tag in ('failure', 'error') for c in tc)
                if bad:
                    fails.append(tc.get('name'))
                    ids[tc.get('name')] = tc.get('classname').replace('.', '/') + '.py::' + tc.get('name')
                elif not any(c.tag == 'skipped' for c in tc):
                    npass += 1
            res['suite_passed'] = npass
            res['suite_failed'] = fails
            unexpected = [f for f in fails if f not in FLAKY]
            # a failure outside the known-flaky list is re-run alone (twice): passing both times classifies it as flaky on this tree
            rerun = {}
            for f in list(unexpected):
                oks = 0
                for _ in range(2):
                    rr = sh(f'/venv/bin/python -m pytest -q -p no:cacheprovider --timeout=900 "{ids[f]}"', cwd=wt, env=env, timeout=1800)
                    oks += rr.returncode == 0
                rerun[f] = f'{oks}/2 passed when re-run alone'
                if oks == 2:
                    unexpected.remove(f)
            res['suite_reruns'] = rerun
            res['suite_unexpected_failures'] = unexpected
            os.remove(xml)
        # run the checks against the changed tree
        caught = {}
        man = json.load(open(os.path.join(HERE, 'MANIFEST.json')))
        for c in man['checks']:
            p = c['property_id']
            rr = sh(['/venv/bin/python', os.path.join(HERE, 'check.py'), p, '--root', wt])
            if rr.returncode != 0:
                caught[p] = {'exit': rr.returncode,
                             'lines': [l.strip()[:300] for l in rr.stdout.splitlines() if l.startswith('  python/') or l.startswith('ANALYSIS-ERROR')][:4]}
        res['checks_firing'] = caught
    finally:
        sh(['git', '-C', '/repo', 'worktree', 'remove', '--force', wt])
        shutil.rmtree(wt, ignore_errors=True)
    ok = res.get('demo_clean_exit') == 0 and res.get('patch_applies') and res.get('demo_changed_exit', 0) != 0 \
        and (a.no_suite or not res.get('suite_unexpected_failures'))
    res['confirmed'] = bool(ok)
    os.makedirs(out, exist_ok=True)
    shutil.copy(os.path.join(src, 'patch.diff'), out)
    shutil.copy(os.path.join(src, 'demo.py'), out)
    meta = {}
    mp = os.path.join(src, 'meta.json')
    if os.path.exists(mp):
        try:
            meta = json.load(open(mp))
        except Exception:
            meta = {'agent_meta_unreadable': True}
    meta_out = {'property': a.prop, 'agent_meta': meta, 'confirmation': res}
    json.dump(meta_out, open(os.path.join(out, 'meta.json'), 'w'), indent=1)
    print(json.dumps({k: res[k] for k in res if k not in ('demo_changed_tail',)}, indent=1)[:1500])
    return 0 if ok else 1


if __name__ == '__main__':
    sys.exit(main())
