#!/venv/bin/python
"""Apply a patch to a scratch copy of /repo's package and run every claimed check against it.
usage: try_patch.py <patch.diff> [prop ...]     (prints one line per property: exit code and violated rules)"""
import json, os, subprocess, sys
HERE = os.path.dirname(os.path.dirname(os.path.abspath(__file__)))
sys.path.insert(0, HERE)
from tools.variant import make  # noqa
import shutil


def main():
    patch = sys.argv[1]
    props = sys.argv[2:]
    if not props:
        man = json.load(open(os.path.join(HERE, 'MANIFEST.json')))
        props = [c['property_id'] for c in man['checks']]
    name = 'try_' + str(os.getpid())
    root = make(name, patch=patch)
    try:
        for p in props:
            r = subprocess.run(['/venv/bin/python', os.path.join(HERE, 'check.py'), p, '--root', root], capture_output=True, text=True)
            lines = [l for l in r.stdout.splitlines() if l.startswith('  python/') or l.startswith('ANALYSIS-ERROR')]
            print(f'{p}: exit {r.returncode}' + ('' if r.returncode == 0 else ''))
            for l in lines[:6]:
                print('     ' + l.strip()[:260])
    finally:
        shutil.rmtree(root, ignore_errors=True)


if __name__ == '__main__':
    main()
